(** SemMovProofs.v — what the data-movement mirror of SemMov.v means, for all operand expressions and all states. *)
From Coq Require Import ZArith List Bool String Lia.
From Mx Require Import Expr ExprProofs Sem SemProofs SemMov.
Import ListNotations.
Open Scope Z_scope.

Lemma is_mirror_mv_sound k args l : is_mirror_mv k args l = true ->
  exists m, mirror_mv k args = Some m /\ forall rho mu iota, map (eval rho mu iota) l = map (eval rho mu iota) m.
Proof.
  unfold is_mirror_mv. destruct (mirror_mv k args) as [m|]; [|discriminate]. intros H. exists m. split; [reflexivity|].
  intros rho mu iota. apply list_expr_eqb_eval. exact H.
Qed.

Section Meaning.
  Variable rho : string -> Z.
  Variable mu : Z -> Z.
  Variable iota : string -> list Z -> Z.
  Notation ev := (eval rho mu iota).

  Lemma bits_small x n i : 0 <= x < 2 ^ n -> n <= i -> Z.testbit x i = false.
  Proof.
    intros Hx Hi. destruct (Z_lt_le_dec n 0) as [N|N]; [rewrite Z.pow_neg_r in Hx by lia; lia|].
    rewrite <- (Z.mod_small x (2 ^ n)) by lia. apply Z.mod_pow2_bits_high. lia.
  Qed.

  (** movzx: the value is the source's *)
  Theorem zext_value a b : operand_ok b = true -> size b < size a -> ev (zext_src a b) = ev b.
  Proof.
    intros Ob L. destruct (operand_range rho mu iota b Ob) as [Pb Rb]. unfold zext_src. rewrite eval_compose. cbn [map fold_left].
    unfold slot_val, slot_e, slot_lo, slot_hi. cbn [fst snd].
    apply Z.bits_inj'. intros i Hi. rewrite !Z.lor_spec, Z.bits_0, !testbit_slot by lia.
    change (ev (EInt false 32 0)) with (wrap 32 0). unfold wrap at 1. rewrite Z.mod_0_l by (apply Z.pow_nonzero; lia). rewrite Z.bits_0, andb_false_r. cbn [orb].
    replace (0 <=? i) with true by (symmetry; apply Z.leb_le; lia). cbn [andb]. rewrite !Z.sub_0_r, !Z.add_0_l.
    destruct (Z.ltb_spec i (size b)) as [M|M]; [reflexivity|]. cbn [andb]. symmetry. apply (bits_small _ (size b)); assumption.
  Qed.

  (** movsx: below the source width the source's bits, above it copies of its sign bit *)
  Theorem sext_bits a b : operand_ok b = true -> size b < size a -> size a - size b <= 32 -> forall i, 0 <= i ->
    Z.testbit (ev (sext_src a b)) i = if i <? size b then Z.testbit (ev b) i else (i <? size a) && Z.testbit (ev b) (size b - 1).
  Proof.
    intros Ob L L32 i Hi. destruct (operand_range rho mu iota b Ob) as [Pb Rb]. unfold sext_src. rewrite eval_compose. cbn [map fold_left].
    unfold slot_val, slot_e, slot_lo, slot_hi. cbn [fst snd].
    rewrite !Z.lor_spec, Z.bits_0, !testbit_slot by lia. cbn [orb].
    replace (0 <=? i) with true by (symmetry; apply Z.leb_le; lia). cbn [andb]. rewrite !Z.sub_0_r, !Z.add_0_l.
    replace (size b + (size a - size b)) with (size a) by lia.
    change (ev (ECond (msb b) (EInt false 32 4294967295) (EInt false 32 0))) with (if ev (msb b) =? 0 then wrap 32 0 else wrap 32 4294967295).
    rewrite (ev_msb rho mu iota b Pb).
    destruct (Z.ltb_spec i (size b)) as [M|M].
    - replace (size b <=? i) with false by (symmetry; apply Z.leb_gt; lia). cbn [andb]. apply orb_false_r.
    - replace (size b <=? i) with true by (symmetry; apply Z.leb_le; lia). cbn [andb orb].
      rewrite ?(bits_small _ (size b) i Rb M). cbn [orb].
      destruct (Z.ltb_spec i (size a)) as [N|N]; [|reflexivity]. cbn [andb].
      destruct (Z.testbit (ev b) (size b - 1)); cbn [Z.b2z Z.eqb].
      + change (wrap 32 4294967295) with (Z.ones 32). apply Z.ones_spec_low. lia.
      + apply Z.bits_0.
  Qed.

  (** not: the one's complement *)
  Theorem not_value b : operand_ok b = true -> ev (e_not b) = 2 ^ size b - 1 - ev b.
  Proof.
    intros Ob. destruct (operand_range rho mu iota b Ob) as [Pb Rb]. unfold e_not. fold (e_xor b (int_from b (2 ^ size b - 1))).
    rewrite (ev_xor rho mu iota) by lia. unfold int_from. cbn [eval]. 
    replace (2 ^ size b - 1) with (Z.ones (size b)) by (rewrite Z.ones_equiv; lia).
    assert (W : wrap (size b) (Z.ones (size b)) = Z.ones (size b)) by (apply Z.mod_small; rewrite Z.ones_equiv; lia). rewrite W.
    assert (E : Z.lxor (ev b) (Z.ones (size b)) = Z.ones (size b) - ev b).
    { assert (D : Z.ldiff (ev b) (Z.ones (size b)) = 0).
      { apply Z.bits_inj'. intros i Hi. rewrite Z.ldiff_spec, Z.bits_0. destruct (Z_lt_le_dec i (size b)) as [M|M].
        - rewrite Z.ones_spec_low by lia. apply andb_false_r.
        - rewrite (bits_small _ (size b) i Rb M). reflexivity. }
      rewrite (Z.sub_nocarry_ldiff _ _ D). apply Z.bits_inj'. intros i Hi. rewrite Z.lxor_spec, Z.ldiff_spec.
      destruct (Z_lt_le_dec i (size b)) as [M|M].
      - rewrite Z.ones_spec_low by lia. destruct (Z.testbit (ev b) i); reflexivity.
      - rewrite (bits_small _ (size b) i Rb M), Z.ones_spec_high by lia. reflexivity. }
    rewrite E. apply Z.mod_small. rewrite Z.ones_equiv. lia.
  Qed.

  (** push / pop: the stack pointer moves by the operand size, modulo 2^32 *)
  Theorem esp_minus k : ev (EOp "-" [esp; EInt false 32 k]) = (rho "esp" - k) mod 2 ^ 32.
  Proof. rewrite (ev_sub rho mu iota esp) by (cbn; lia). cbn [size esp eval]. unfold wrap. rewrite <- Zminus_mod. reflexivity. Qed.
  Theorem esp_plus k : ev (EOp "+" [esp; EInt false 32 k]) = (rho "esp" + k) mod 2 ^ 32.
  Proof. rewrite (ev_add rho mu iota esp) by (cbn; lia). cbn [size esp eval]. unfold wrap. rewrite <- Zplus_mod. reflexivity. Qed.
  (** cmc *)
  Theorem cmc_value : ev (ECond (flag "cf") (i1 0) (i1 1)) = 1 - wrap 1 (rho "cf").
  Proof.
    change (ev (ECond (flag "cf") (i1 0) (i1 1))) with (if wrap 1 (rho "cf") =? 0 then wrap 1 1 else wrap 1 0).
    pose proof (Z.mod_pos_bound (rho "cf") 2 ltac:(lia)) as B. unfold wrap in *. change (2 ^ 1) with 2.
    destruct (Z.eqb_spec (rho "cf" mod 2) 0) as [E|E]; [rewrite E; reflexivity|]. replace (rho "cf" mod 2) with 1 by lia. reflexivity.
  Qed.
End Meaning.

(** pop with a memory destination addressed through esp: the address is computed with the INCREMENTED stack pointer
    (SDM, POP: "the POP ESP / POP m with ESP as base computes the effective address after the increment") *)
Fixpoint addr_shape (e : expr) : bool :=
  match e with
  | EInt _ _ _ => true
  | EId n _ _ _ => negb (n =? "esp")%string || expr_eqb e esp
  | EOp _ args => forallb addr_shape args
  | _ => false
  end.
Lemma size_subst_esp n : size n = 32 -> forall e, size (subst_esp n e) = size e.
Proof.
  intros Hn. induction e using expr_ind'; try reflexivity.
  - cbn [subst_esp]. destruct (expr_eqb (EId n0 w r t) esp) eqn:E; [|reflexivity].
    unfold esp in E. rewrite eqb_id in E. apply andb_true_iff in E as [E _]. apply andb_true_iff in E as [_ E]. apply Z.eqb_eq in E. subst w. exact Hn.
  - cbn [subst_esp]. destruct H as [|a l Ha Hl]; [reflexivity|]. cbn [map size]. rewrite Ha.
    destruct (size a =? 0); [|reflexivity]. inversion Hl as [|b l' Hb Hl']; subst; [reflexivity|]. cbn [map]. exact Hb.
Qed.
Theorem subst_esp_eval rho mu iota n : size n = 32 -> 0 <= eval rho mu iota n < 2 ^ 32 -> forall e, addr_shape e = true ->
  eval rho mu iota (subst_esp n e) = eval (fun x => if (x =? "esp")%string then eval rho mu iota n else rho x) mu iota e.
Proof.
  intros Hn Rn. induction e using expr_ind'; intros A; try discriminate.
  - reflexivity.
  - cbn [subst_esp]. destruct (expr_eqb (EId n0 w r t) esp) eqn:E.
    + pose proof E as E'. unfold esp in E'. rewrite eqb_id in E'. apply andb_true_iff in E' as [E' _]. apply andb_true_iff in E' as [E1 E2].
      apply String.eqb_eq in E1. apply Z.eqb_eq in E2. subst n0 w. cbn [eval]. rewrite String.eqb_refl.
      symmetry. apply Z.mod_small. exact Rn.
    + cbn [addr_shape] in A. rewrite E, orb_false_r in A. apply negb_true_iff in A. cbn [eval]. rewrite A. reflexivity.
  - pose proof (size_subst_esp n Hn (EOp op args)) as Sz. cbn [subst_esp] in Sz |- *. rewrite !eval_op_node. rewrite Sz. f_equal. clear Sz.
    cbn [addr_shape] in A. rewrite map_map. induction H as [|a l Ha Hl IH]; [reflexivity|]. cbn [forallb] in A. apply andb_true_iff in A as [A1 A2].
    cbn [map]. rewrite (Ha A1), (IH A2). reflexivity.
Qed.
