(** PpcProofs.v — soundness of the disjointness test and the re-encoding identity (C18). *)
From Coq Require Import ZArith List Bool String Lia.
From Mx Require Import Ppc.
Import ListNotations.
Open Scope Z_scope.

(** a field constraint pins the masked bits of the word *)
Lemma field_pins w o m v : 0 <= o -> fieldv w o m = v -> abs_val o v = Z.land w (abs_mask o m).
Proof.
  intros Ho H. unfold fieldv, abs_val, abs_mask in *. subst v.
  apply Z.bits_inj'. intros n Hn.
  rewrite Z.land_spec, !Z.shiftl_spec by assumption.
  destruct (Z_lt_le_dec n o) as [L|L].
  - rewrite (Z.testbit_neg_r _ (n - o)) by lia. rewrite (Z.testbit_neg_r m (n - o)) by lia. destruct (Z.testbit w n); reflexivity.
  - rewrite Z.land_spec, Z.shiftr_spec by lia. replace (n - o + o) with n by lia. reflexivity.
Qed.

Lemma pinned_agree w m1 m2 : Z.land (Z.lxor (Z.land w m1) (Z.land w m2)) (Z.land m1 m2) = 0.
Proof.
  apply Z.bits_inj'. intros n Hn.
  rewrite Z.land_spec, Z.lxor_spec, !Z.land_spec, Z.bits_0.
  destruct (Z.testbit w n), (Z.testbit m1 n), (Z.testbit m2 n); reflexivity.
Qed.

Lemma eq_conflict_sound o1 m1 v1 o2 m2 v2 w :
  0 <= o1 -> 0 <= o2 -> eq_conflict o1 m1 v1 o2 m2 v2 = true ->
  fieldv w o1 m1 = v1 -> fieldv w o2 m2 = v2 -> False.
Proof.
  intros H1 H2 C F1 F2. unfold eq_conflict in C.
  rewrite (field_pins w o1 m1 v1 H1 F1), (field_pins w o2 m2 v2 H2 F2), pinned_agree in C. discriminate.
Qed.

Definition con_off_ok (k : pcon) : Prop :=
  match k with CEq o _ _ | CNe o _ _ | CIn o _ _ => 0 <= o end.
Lemma con_wf_off k : con_wf k = true -> con_off_ok k.
Proof. destruct k; simpl; intros H; apply Z.leb_le; assumption. Qed.

Lemma existsb_eqb_In x l : existsb (Z.eqb x) l = true -> In x l.
Proof. intros H. apply existsb_exists in H. destruct H as [y [I E]]. apply Z.eqb_eq in E. subst. assumption. Qed.

Lemma conflict_sound a b w : con_off_ok a -> con_off_ok b -> conflict a b = true ->
  con_ok w a = true -> con_ok w b = true -> False.
Proof.
  intros Ha Hb C A B. destruct a as [o1 m1 v1|o1 m1 v1|o1 m1 vs1], b as [o2 m2 v2|o2 m2 v2|o2 m2 vs2]; simpl in *; try discriminate.
  - apply Z.eqb_eq in A, B. exact (eq_conflict_sound o1 m1 v1 o2 m2 v2 w Ha Hb C A B).
  - apply Z.eqb_eq in A. apply andb_true_iff in C as [C C3]. apply andb_true_iff in C as [C1 C2].
    apply Z.eqb_eq in C1, C2, C3. subst o2 m2 v2. rewrite A, Z.eqb_refl in B. discriminate.
  - apply Z.eqb_eq in A. apply existsb_eqb_In in B. rewrite forallb_forall in C. specialize (C _ B).
    exact (eq_conflict_sound o1 m1 v1 o2 m2 _ w Ha Hb C A eq_refl).
  - apply Z.eqb_eq in B. apply andb_true_iff in C as [C C3]. apply andb_true_iff in C as [C1 C2].
    apply Z.eqb_eq in C1, C2, C3. subst o2 m2 v2. rewrite B, Z.eqb_refl in A. discriminate.
  - apply Z.eqb_eq in B. apply existsb_eqb_In in A. rewrite forallb_forall in C. specialize (C _ A).
    exact (eq_conflict_sound o2 m2 v2 o1 m1 _ w Hb Ha C B eq_refl).
  - apply existsb_eqb_In in A. apply existsb_eqb_In in B. rewrite forallb_forall in C. specialize (C _ A).
    rewrite forallb_forall in C. specialize (C _ B). exact (eq_conflict_sound o1 m1 _ o2 m2 _ w Ha Hb C eq_refl eq_refl).
Qed.

Lemma disjointb_sound c1 c2 w : class_wf c1 = true -> class_wf c2 = true -> disjointb c1 c2 = true ->
  check c1 w = true -> check c2 w = true -> False.
Proof.
  unfold class_wf, disjointb, check. intros W1 W2 D C1 C2.
  apply existsb_exists in D. destruct D as [a [Ia D]]. apply existsb_exists in D. destruct D as [b [Ib D]].
  rewrite forallb_forall in W1, W2, C1, C2.
  eapply (conflict_sound a b w); eauto using con_wf_off.
Qed.

(** at most one class claims a word *)
Lemma claimants_at_most_one cs : forallb class_wf cs = true -> all_pairs_disjoint cs = true ->
  forall w, (List.length (claimants cs w) <= 1)%nat.
Proof.
  induction cs as [|c r IH]; intros W D w; [simpl; lia|].
  simpl in W, D. apply andb_true_iff in W as [Wc Wr]. apply andb_true_iff in D as [Dc Dr].
  specialize (IH Wr Dr w). unfold claimants in *. cbn [filter].
  destruct (check c w) eqn:E; [|assumption].
  destruct (filter (fun c0 => check c0 w) r) as [|c2 t] eqn:F; [simpl; lia|]. exfalso.
  assert (In c2 (filter (fun c0 => check c0 w) r)) as I by (rewrite F; left; reflexivity).
  apply filter_In in I. destruct I as [I2 K2]. rewrite forallb_forall in Dc, Wr.
  eapply (disjointb_sound c c2 w); eauto.
Qed.

(** extracting a field and putting it back is masking the word *)
Lemma field_mask w off l : 0 <= off -> 0 <= l ->
  Z.shiftl (Z.land (Z.land (Z.shiftr w off) (Z.ones l)) (Z.ones l)) off = Z.land w (Z.shiftl (Z.ones l) off).
Proof.
  intros Ho Hl. apply Z.bits_inj'. intros n Hn.
  rewrite Z.land_spec, !Z.shiftl_spec by assumption.
  destruct (Z_lt_le_dec n off) as [L|L].
  - rewrite (Z.testbit_neg_r _ (n - off)) by lia. rewrite (Z.testbit_neg_r (Z.ones l) (n - off)) by lia. destruct (Z.testbit w n); reflexivity.
  - rewrite !Z.land_spec, Z.shiftr_spec by lia. replace (n - off + off) with n by lia.
    destruct (Z.testbit (Z.ones l) (n - off)), (Z.testbit w n); reflexivity.
Qed.

Lemma reencode_is_mask c w : plain_fields c = true -> reencode c w = Z.land w (total_mask c).
Proof.
  unfold plain_fields, reencode, total_mask. generalize (pc_fields c) as fs.
  assert (G : forall fs acc accm, forallb (fun f => let '(off, l, kind, inv) := f in (kind =? 0) && (inv =? 0) && (0 <=? off) && (0 <=? l)) fs = true ->
            acc = Z.land w accm ->
            fold_left (fun acc f => Z.lor acc (field_roundtrip w f)) fs acc =
            Z.land w (fold_left (fun acc f => let '(off, l, kind, inv) := f in Z.lor acc (Z.shiftl (Z.ones l) off)) fs accm)).
  { induction fs as [|[[[off l] kind] inv] fs IH]; simpl; intros acc accm H E; [assumption|].
    apply andb_true_iff in H as [H Hr]. repeat (apply andb_true_iff in H; destruct H as [H ?]).
    apply Z.eqb_eq in H, H2. apply Z.leb_le in H1, H0. subst kind inv.
    apply IH; [assumption|]. unfold field_roundtrip. simpl.
    rewrite field_mask by assumption. rewrite E, Z.land_lor_distr_r. reflexivity. }
  intros fs H. apply G; [assumption|]. rewrite Z.land_0_r. reflexivity.
Qed.

Lemma reencode_identity c w : plain_fields c = true -> total_mask c = Z.ones 32 -> 0 <= w < 2 ^ 32 -> reencode c w = w.
Proof.
  intros P M W. rewrite reencode_is_mask by assumption. rewrite M, Z.land_ones by lia. apply Z.mod_small. assumption.
Qed.
