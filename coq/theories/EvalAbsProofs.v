(** EvalAbsProofs.v — symbolic evaluation is sound substitution (C06), for register-only states (no symbolic memory writes) and
    expressions of fragment 1: the result of eval_expr, evaluated in a concrete state rho, equals the argument evaluated in the
    state where every bound identifier takes the value of its binding in rho. *)
From Coq Require Import ZArith List Bool String Lia.
From Mx Require Import ModInt Expr ExprProofs Simp SliceLemmas SimpProofs EvalAbs.
Import ListNotations.
Open Scope list_scope.
Open Scope Z_scope.

Section Subst.
  (** a signature for identifier names: width, is_reg, is_term — every identifier of the trees considered conforms to it *)
  Variable Sig : string -> Z * bool * bool.
  Definition IdQ (n : string) (w : Z) (r t : bool) : bool :=
    (w =? fst (fst (Sig n))) && Bool.eqb r (snd (fst (Sig n))) && Bool.eqb t (snd (Sig n)).
  Notation wfq := (wf false IdQ).

  Variable s : pool.
  Definition binding_ok (kv : expr * expr) : Prop :=
    exists n w r, fst kv = EId n w r false /\ IdQ n w r false = true /\ wfq (snd kv) = true /\ size (snd kv) = w.
  Hypothesis pool_no_mem : pool_mem s = [].
  Hypothesis pool_ok : Forall binding_ok (pool_id s).

  Variable rho : string -> Z.
  Variable mu : Z -> Z.
  Variable iota : string -> list Z -> Z.
  Notation ev := (eval rho mu iota).

  Fixpoint lookup_name (d : list (expr * expr)) (n : string) : option expr :=
    match d with
    | [] => None
    | (EId n' _ _ _, v) :: r => if (n' =? n)%string then Some v else lookup_name r n
    | _ :: r => lookup_name r n
    end.
  (** the state after substitution: a bound identifier denotes the value of its binding *)
  Definition rho' (n : string) : Z := match lookup_name (pool_id s) n with Some v => ev v | None => rho n end.
  Notation ev' := (eval rho' mu iota).

  Definition rel (x x' : expr) : Prop := wfq x' = true /\ size x' = size x /\ ev x' = ev' x.

  Lemma IdQ_inv n w r t : IdQ n w r t = true -> Sig n = (w, r, t).
  Proof.
    unfold IdQ. intros H. apply andb_true_iff in H as [H T]. apply andb_true_iff in H as [W R].
    apply Z.eqb_eq in W. apply Bool.eqb_prop in R, T. destruct (Sig n) as [[w0 r0] t0]. simpl in *. subst. reflexivity.
  Qed.

  Lemma lookup_get_gen n w r t : IdQ n w r t = true -> forall d, Forall binding_ok d ->
    adict_get d (EId n w r t) = if t then None else lookup_name d n.
  Proof.
    intros Q. pose proof (IdQ_inv _ _ _ _ Q) as Sn. induction 1 as [|kv d Hkv _ IH]; [destruct t; reflexivity|].
    destruct Hkv as (n' & w' & r' & Ek & Q' & _ & _). destruct kv as [k v]. simpl in Ek. subst k.
    pose proof (IdQ_inv _ _ _ _ Q') as Sn'. cbn [adict_get lookup_name].
    change (expr_eqb (EId n' w' r' false) (EId n w r t)) with ((n' =? n)%string && (w' =? w) && Bool.eqb r' r).
    destruct (n' =? n)%string eqn:En.
    - apply String.eqb_eq in En. subst n'. rewrite Sn in Sn'. inversion Sn'; subst. rewrite Z.eqb_refl, Bool.eqb_reflx. reflexivity.
    - cbn [andb]. exact IH.
  Qed.
  Lemma lookup_get n w r t : IdQ n w r t = true -> adict_get (pool_id s) (EId n w r t) = if t then None else lookup_name (pool_id s) n.
  Proof. intros Q. apply lookup_get_gen; [exact Q | exact pool_ok]. Qed.

  Lemma lookup_binding_gen n v : forall d, Forall binding_ok d -> lookup_name d n = Some v -> exists w r, IdQ n w r false = true /\ wfq v = true /\ size v = w.
  Proof.
    induction 1 as [|kv d Hkv _ IH]; [discriminate|].
    destruct Hkv as (n' & w' & r' & Ek & Q' & Wv & Sv). destruct kv as [k v0]. simpl in *. subst k.
    destruct (n' =? n)%string eqn:En; [|exact IH]. intros H. inversion H; subst v0. apply String.eqb_eq in En. subst n'. eauto.
  Qed.
  Lemma lookup_binding n v : lookup_name (pool_id s) n = Some v -> exists w r, IdQ n w r false = true /\ wfq v = true /\ size v = w.
  Proof. apply lookup_binding_gen. exact pool_ok. Qed.

  (** identifiers *)
  Lemma id_rel n w r t : wfq (EId n w r t) = true ->
    rel (EId n w r t) (match adict_get (pool_id s) (EId n w r t) with Some v => v | None => EId n w r t end).
  Proof.
    intros W. pose proof W as W'. simpl in W'. apply andb_true_iff in W' as [Pw Q]. apply andb_true_iff in Pw as [Pw _]. apply Z.ltb_lt in Pw.
    rewrite (lookup_get _ _ _ _ Q). unfold rel. destruct t.
    - split; [exact W|]. split; [reflexivity|]. simpl. unfold rho'.
      destruct (lookup_name (pool_id s) n) as [v|] eqn:L; [|reflexivity].
      destruct (lookup_binding _ _ L) as (w2 & r2 & Q2 & _). pose proof (IdQ_inv _ _ _ _ Q) as S1. pose proof (IdQ_inv _ _ _ _ Q2) as S2. congruence.
    - destruct (lookup_name (pool_id s) n) as [v|] eqn:L.
      + destruct (lookup_binding _ _ L) as (w2 & r2 & Q2 & Wv & Sv).
        pose proof (IdQ_inv _ _ _ _ Q) as S1. pose proof (IdQ_inv _ _ _ _ Q2) as S2. assert (Ew : w2 = w) by congruence.
        split; [exact Wv|]. split; [simpl; congruence|]. simpl. unfold rho'. rewrite L.
        destruct (wf_range false IdQ rho mu iota v Wv) as [_ R]. rewrite Sv, Ew in R. symmetry. apply Z.mod_small. exact R.
      + split; [exact W|]. split; [reflexivity|]. simpl. unfold rho'. rewrite L. reflexivity.
  Qed.
  (** an operator node whose operands are related pointwise *)
  Lemma node_rel op args args' : wfq (EOp op args) = true -> Forall2 rel args args' -> rel (EOp op args) (EOp op args').
  Proof.
    intros W F. pose proof W as W'. simpl in W'. apply andb_true_iff in W' as [Wl O].
    assert (A : Forall (fun a => wfq a = true) args') by (clear - F; induction F as [|? ? ? ? G]; constructor; [apply G | assumption]).
    assert (Sz : map size args' = map size args) by (clear - F; induction F as [|? ? ? ? G]; simpl; [reflexivity | destruct G as (_ & G & _); congruence]).
    assert (Ev : map ev args' = map ev' args) by (clear - F; induction F as [|? ? ? ? G]; simpl; [reflexivity | destruct G as (_ & _ & G); congruence]).
    assert (Ln : List.length args' = List.length args) by (clear - F; induction F; simpl; congruence).
    destruct args as [|a r]; [discriminate|]. destruct args' as [|a' r']; [discriminate|].
    inversion Sz as [[Sa Sr]].
    split; [|split].
    - change (wfq (EOp op (a' :: r'))) with (forallb wfq (a' :: r') && op_ok op (a' :: r')). apply andb_true_iff. split; [apply forallb_Forall; exact A|].
      unfold op_ok in *. rewrite Sa, Ln. rewrite (args_ok_sizes op (size a) (a :: r) (a' :: r') Sz). exact O.
    - simpl. rewrite Sa. destruct (size a =? 0); [|reflexivity]. destruct r, r'; simpl in *; try discriminate; congruence.
    - rewrite !eval_op_node. rewrite Ev. f_equal. simpl. rewrite Sa. destruct (size a =? 0); [|reflexivity]. destruct r, r'; simpl in *; try discriminate; congruence.
  Qed.

  (** constant operands: eval_op_consts agrees with the operator's meaning *)
  Lemma ints_of_spec args ints : ints_of args = Some ints -> args = map (fun '(sg, w, v) => EInt sg w v) ints.
  Proof.
    revert ints. induction args as [|a args IH]; intros ints H; simpl in H; [inversion H; reflexivity|].
    destruct a; try discriminate. destruct (ints_of args) as [l|]; try discriminate. inversion H; subst. simpl. rewrite (IH l eq_refl). reflexivity.
  Qed.

  Lemma sar_sat w z k : 0 < w -> - 2 ^ w <= z < 2 ^ w -> w <= k -> Z.shiftr z k = Z.shiftr z w.
  Proof.
    intros Hw Hz Hk.
    assert (G : forall j, w <= j -> Z.shiftr z j = if z <? 0 then -1 else 0).
    { intros j Hj. rewrite Z.shiftr_div_pow2 by lia. assert (P : 2 ^ w <= 2 ^ j) by (apply Z.pow_le_mono_r; lia).
      destruct (z <? 0) eqn:N; [apply Z.ltb_lt in N | apply Z.ltb_ge in N].
      - symmetry. apply (Z.div_unique z (2 ^ j) (-1) (z + 2 ^ j)); lia.
      - apply Z.div_small. lia. }
    rewrite (G k Hk), (G w ltac:(lia)). reflexivity.
  Qed.
  Lemma sgn_bound w z : 0 < w -> - 2 ^ w <= sgn w z < 2 ^ w.
  Proof.
    intros Hw. unfold sgn. pose proof (Z.mod_pos_bound z (2 ^ w) ltac:(apply Z.pow_pos_nonneg; lia)) as B. fold (wrap w z) in B.
    cbv zeta. destruct (2 * wrap w z >=? 2 ^ w); lia.
  Qed.

  Lemma const_op_value op w vs r : frag_op op = true -> 0 < w -> Forall (fun v => 0 <= v) vs -> hd 0 vs < 2 ^ w ->
    (is_shift op = true -> List.length vs = 2%nat) ->
    match opk_of op with OEq | ORol | ORor => List.length vs = 2%nat | OParity => List.length vs = 1%nat | _ => True end ->
    eval_const_op op w vs = Ok r -> wrap w r = eval_op iota op w vs.
  Proof.
    unfold frag_op, is_shift, eval_const_op, eval_op. intros F Hw Nn Hd Ln La H. destruct (opk_of op); try discriminate.
    - destruct vs as [|v l]; inversion H. cbn [fold_left]. rewrite Z.add_0_l. reflexivity.
    - destruct vs as [|v l]; inversion H. cbn [fold_left]. rewrite Z.mul_1_l. reflexivity.
    - destruct vs as [|v l]; inversion H. cbn [fold_left]. rewrite Z.lxor_0_l. reflexivity.
    - destruct vs as [|v l]; inversion H. reflexivity.
    - destruct vs as [|v l]; inversion H. cbn [fold_left]. rewrite Z.lor_0_l. reflexivity.
    - destruct vs as [|a [|b [|c l]]]; inversion H; reflexivity.
    - specialize (Ln eq_refl). destruct vs as [|a [|c [|? ?]]]; try discriminate. destruct (mymaxuint_ok w); [|discriminate]. inversion H; subst r. clear H.
      inversion Nn as [|? ? Pa Nn']; subst. inversion Nn' as [|? ? Pc _]; subst. cbn [hd] in Hd.
      replace (2 ^ w - 1) with (Z.ones w) by (rewrite Z.ones_equiv; lia). rewrite Z.land_ones, Z.mod_small by lia.
      rewrite (shiftl_sat w a (Z.min c (w + 64))) by lia. f_equal. f_equal. lia.
    - specialize (Ln eq_refl). destruct vs as [|a [|c [|? ?]]]; try discriminate. destruct (mymaxuint_ok w); [|discriminate]. inversion H; subst r. clear H.
      inversion Nn as [|? ? Pa Nn']; subst. inversion Nn' as [|? ? Pc _]; subst. cbn [hd] in Hd.
      replace (2 ^ w - 1) with (Z.ones w) by (rewrite Z.ones_equiv; lia). rewrite Z.land_ones, Z.mod_small by lia.
      replace (wrap w a) with a by (symmetry; apply Z.mod_small; lia).
      rewrite (shiftr_sat w a (Z.min c (w + 64))) by lia. f_equal. f_equal. lia.
    - specialize (Ln eq_refl). destruct vs as [|a [|c [|? ?]]]; try discriminate. destruct (mymaxuint_ok w); [|discriminate]. inversion H; subst r. clear H.
      inversion Nn as [|? ? Pa Nn']; subst. inversion Nn' as [|? ? Pc _]; subst.
      pose proof (sgn_bound w a Hw) as B. f_equal.
      destruct (Z_le_gt_dec c w) as [L|L]; [f_equal; lia|].
      rewrite (Z.min_r c w) by lia. apply sar_sat; lia.
    - destruct vs as [|a [|c [|? ?]]]; try discriminate. destruct (mymaxuint_ok w); [|discriminate]. inversion H; subst r. clear H.
      inversion Nn as [|? ? Pa Nn']; subst. cbn [hd] in Hd. replace (w =? 0) with false by (symmetry; apply Z.eqb_neq; lia). unfold rol. cbv zeta.
      replace (2 ^ w - 1) with (Z.ones w) by (rewrite Z.ones_equiv; lia). rewrite (Z.land_ones a), (Z.mod_small a) by lia. replace (wrap w a) with a by (symmetry; apply Z.mod_small; lia).
      apply wrap_eq_bits; [lia|]. intros i Hi. rewrite !Z.lor_spec, Z.land_spec, Z.ones_spec_low by lia. rewrite andb_true_r. reflexivity.
    - destruct vs as [|a [|c [|? ?]]]; try discriminate. destruct (mymaxuint_ok w); [|discriminate]. inversion H; subst r. clear H.
      inversion Nn as [|? ? Pa Nn']; subst. cbn [hd] in Hd. replace (w =? 0) with false by (symmetry; apply Z.eqb_neq; lia). unfold ror. cbv zeta.
      replace (2 ^ w - 1) with (Z.ones w) by (rewrite Z.ones_equiv; lia). rewrite (Z.land_ones a), (Z.mod_small a) by lia. replace (wrap w a) with a by (symmetry; apply Z.mod_small; lia).
      apply wrap_eq_bits; [lia|]. intros i Hi. rewrite !Z.lor_spec, Z.land_spec, Z.ones_spec_low by lia. rewrite andb_true_r. reflexivity.
    - destruct vs as [|a [|b [|? ?]]]; try discriminate. inversion H; subst r. destruct (a =? b); [reflexivity|]. unfold wrap. apply Z.mod_0_l. apply Z.pow_nonzero; lia.
    - destruct vs as [|a [|? ?]]; try discriminate. inversion H; subst r. reflexivity.
  Qed.
  Lemma op_ok_arity op args : op_ok op args = true ->
    match opk_of op with OEq | ORol | ORor => List.length args = 2%nat | OParity => List.length args = 1%nat | _ => True end.
  Proof.
    unfold op_ok. destruct args as [|a r]; [discriminate|]. intros H. apply andb_true_iff in H as [H0 H]. apply andb_true_iff in H0 as [_ Ao].
    destruct (opk_of op) eqn:Ek; try exact I; try (apply Nat.eqb_eq; exact H);
      (unfold args_ok, is_shift, is_rot in Ao; rewrite Ek in Ao; unfold rot_args_ok in Ao; destruct r as [|c [|? ?]]; try discriminate; reflexivity).
  Qed.

  Lemma ints_nonneg ints : forallb wfq (map (fun '(sg, w, v) => EInt sg w v) ints) = true -> Forall (fun v => 0 <= v) (map (fun '(_, _, v) => v) ints).
  Proof.
    intros Wl. apply forallb_Forall in Wl. induction ints as [|[[sg w] v] l IH]; cbn [map] in *; constructor; inversion Wl; subst.
    - apply (wf_int_inv false IdQ rho mu iota sg w v); assumption.
    - apply IH; assumption.
  Qed.
  Lemma shift_len op n (ints : list (bool * Z * Z)) (f : bool * Z * Z -> expr) : args_ok op n (map f ints) = true ->
    is_shift op = true -> List.length (map (fun '(_, _, v) => v) ints) = 2%nat.
  Proof. unfold args_ok. intros A S. rewrite S in A. rewrite map_length in *. apply Nat.eqb_eq. exact A. Qed.

  Lemma arity_vs op (ints : list (bool * Z * Z)) : op_ok op (map (fun '(sg, w, v) => EInt sg w v) ints) = true ->
    match opk_of op with OEq | ORol | ORor => List.length (map (fun '(_, _, v) => v) ints) = 2%nat | OParity => List.length (map (fun '(_, _, v) => v) ints) = 1%nat | _ => True end.
  Proof. intros H. pose proof (op_ok_arity _ _ H) as A. rewrite map_length in *. exact A. Qed.

  Lemma consts_rel op args e' : wfq (EOp op args) = true -> eval_op_consts op args = inl (Ok e') ->
    wfq e' = true /\ size e' = size (EOp op args) /\ ev e' = ev (EOp op args).
  Proof.
    intros W H. unfold eval_op_consts in H. destruct (ints_of args) as [ints|] eqn:I.
    2:{ inversion H; subst. auto. }
    destruct (negb (in_deal_op op)); [inversion H; subst; auto|].
    destruct ints as [|[[sg0 w0] v0] rest]; [discriminate|].
    pose proof (ints_of_spec _ _ I) as Ea. cbn [map] in Ea.
    destruct (negb (forallb _ _) && negb (op_size_no_check op)); [discriminate|].
    destruct (negb (uint_class_ok sg0 w0)); [discriminate|].
    pose proof W as W'. simpl in W'. apply andb_true_iff in W' as [Wl O]. destruct (op_ok_inv _ _ O) as (a & r & Eargs & F & S).
    assert (Ok_ : opk_of op <> OOther) by (unfold frag_op in F; destruct (opk_of op); try discriminate; congruence).
    destruct (opk_of op) eqn:Ek; try contradiction;
      (destruct (negb (forallb _ _)); [discriminate|];
       destruct (eval_const_op op w0 _) as [rv| |] eqn:C; try discriminate; cbn [bind] in H; inversion H; subst e'; clear H;
       rewrite Ea in *; inversion Eargs; subst a r;
       assert (W0 : wfq (EInt sg0 w0 v0) = true) by (apply forallb_Forall in Wl; inversion Wl; assumption);
       destruct (wf_int_inv false IdQ rho mu iota _ _ _ W0) as (-> & P0 & _ & _);
       destruct (wf_int false IdQ rho mu iota w0 rv P0) as (A & B & Cv);
       split; [exact A|]; split; [rewrite B; symmetry; apply (size_node op); simpl; lia|];
       rewrite Cv, eval_op_node, size_node by (simpl; lia); cbn [size];
       rewrite (const_op_value op w0 _ rv F ltac:(lia) (ints_nonneg ((false, w0, v0) :: rest) Wl) ltac:(cbn [map hd]; apply (wf_int_inv false IdQ rho mu iota _ _ _ W0)) (shift_len op _ ((false, w0, v0) :: rest) (fun '(sg, w, v) => EInt sg w v) S) (arity_vs op ((false, w0, v0) :: rest) O) C); f_equal;
       (* the values of in-range unsigned constants are their payloads *)
       clear - Wl; apply forallb_Forall in Wl;
       change (EInt false w0 v0 :: map (fun '(sg, w, v) => EInt sg w v) rest) with (map (fun '(sg, w, v) => EInt sg w v) ((false, w0, v0) :: rest)) in *;
       generalize dependent ((false, w0, v0) :: rest); intros l Wl; induction l as [|[[sg w] v] l IH]; [reflexivity|];
       cbn [map] in *; inversion Wl; subst; f_equal; [symmetry; apply (wf_int_inv false IdQ rho mu iota sg w v); assumption | apply IH; assumption]).
  Qed.
  Lemma rel_after_good x y y' : rel x y -> good false IdQ rho mu iota y y' -> rel x y'.
  Proof. intros (A & B & C) (A' & B' & C'). split; [exact A'|]. split; congruence. Qed.
  Lemma rel_of_good' x x1 y : good false IdQ rho' mu iota x x1 -> rel x1 y -> rel x y.
  Proof. intros (A & B & C) (A' & B' & C'). split; [exact A'|]. split; congruence. Qed.
  Lemma simpF_good r0 m0 i0 y y' : wfq y = true -> simpF y = Ok y' -> good false IdQ r0 m0 i0 y y'.
  Proof. intros W H. exact (simp_good false IdQ r0 m0 i0 40 y y' W H). Qed.

  Lemma mapX_rel (f0 : nat) : (forall x y, wfq x = true -> eval_expr f0 s x = inl (Ok y) -> rel x y) ->
    forall args args', Forall (fun a => wfq a = true) args ->
      mapX (fun x => dox y <- eval_expr f0 s x; lift (simpF y)) args = inl (Ok args') -> Forall2 rel args args'.
  Proof.
    intros IH. induction args as [|a args IHl]; intros args' W H; simpl in H.
    - inversion H; subst. constructor.
    - inversion W as [|? ? Wa Wl]; subst.
      destruct (eval_expr f0 s a) as [[y| |]|] eqn:Ea; simpl in H; try discriminate.
      unfold lift in H. destruct (simpF y) as [y'| |] eqn:Es; simpl in H; try discriminate.
      destruct (mapX _ args) as [[r'| |]|] eqn:Er; simpl in H; try discriminate. inversion H; subst args'.
      pose proof (IH a y Wa Ea) as R. constructor.
      + apply (rel_after_good a y y' R). apply simpF_good; [apply R | exact Es].
      + apply IHl; [exact Wl | reflexivity].
  Qed.

  Theorem eval_expr_rel : forall fuel e e', wfq e = true -> eval_expr fuel s e = inl (Ok e') -> rel e e'.
  Proof.
    induction fuel as [|f IH]; intros e e' W H; [simpl in H; discriminate|].
    cbn [eval_expr] in H. destruct (is_term e) eqn:T.
    { inversion H; subst e'. destruct e as [|n w r t| | | | | |]; try discriminate. simpl in T. subst t.
      pose proof (id_rel n w r true W) as R. pose proof W as W'. simpl in W'. apply andb_true_iff in W' as [_ Q].
      rewrite (lookup_get _ _ _ _ Q) in R. exact R. }
    unfold lift at 1 in H. destruct (visitM simpF e) as [e1| |] eqn:V; simpl in H; try discriminate.
    assert (G1 : good false IdQ rho' mu iota e e1).
    { apply (visit_good false IdQ rho' mu iota simpF); [| |exact W | exact V]; [intros x x' Wx Hx; apply simpF_good; assumption|].
      intros sg w v x' Hx. unfold simpF in Hx. cbn [simp visitM] in Hx. apply (loop_int _ _ _ _ _ _ Hx). }
    apply (rel_of_good' e e1 e' G1). destruct G1 as (W1 & _ & _). clear V W T e.
    destruct e1 as [sg w v|n w r t|addr w sg|op args|c a b|sa lo hi| |]; try (simpl in W1; discriminate).
    - inversion H; subst. split; [exact W1|]. split; reflexivity.
    - inversion H; subst. apply id_rel. exact W1.
    - (* memory cell, register-only state *)
      pose proof W1 as W'. simpl in W'. apply andb_true_iff in W' as [W' _]. apply andb_true_iff in W' as [Wa Pw].
      destruct (eval_expr f s addr) as [[y| |]|] eqn:Ea; simpl in H; try discriminate.
      unfold lift at 1 in H. destruct (simpF y) as [a_val| |] eqn:Es; simpl in H; try discriminate.
      assert (Ra : rel addr a_val) by (apply (rel_after_good addr y a_val (IH _ _ Wa Ea)); apply simpF_good; [apply (IH _ _ Wa Ea) | exact Es]).
      unfold pool_get_mem in H. rewrite pool_no_mem in H. cbn [adict_get] in H.
      match type of H with bindx ?t _ = _ => destruct t as [[tests| |]|]; simpl in H; try discriminate end.
      assert (Go : forall l : list (Z * expr),
                 (fix go (l : list (Z * expr)) : res (list (Z * (expr * expr))) + xerr :=
                    match l with
                    | [] => okx []
                    | (i, x) :: r =>
                        match @adict_get (expr * expr) [] x with
                        | None => go r
                        | Some (cell, v) =>
                            dox d <- (dox y0 <- eval_expr f s (mk_sub a_val x); lift (simpF y0));
                            match d with
                            | EInt _ _ dv => dox tl <- go r; if 8 * int32_of dv >=? size v then okx tl else okx ((i, (cell, v)) :: tl)
                            | _ => inl (Err EValueError)
                            end
                        end
                    end) l = okx []).
      { induction l as [|[i x] l IHl]; [reflexivity | exact IHl]. }
      rewrite Go in H. simpl in H. inversion H; subst e'.
      destruct Ra as (Wv & Sv & Ev). split; [|split].
      + simpl. rewrite Wv, Pw. reflexivity.
      + reflexivity.
      + simpl. rewrite Ev. reflexivity.
    - (* operator *)
      pose proof W1 as W'. simpl in W'. apply andb_true_iff in W' as [Wl _]. apply forallb_Forall in Wl.
      destruct (mapX _ args) as [[args'| |]|] eqn:M; simpl in H; try discriminate.
      pose proof (mapX_rel f IH args args' Wl M) as F2.
      pose proof (node_rel op args args' W1 F2) as (Wn & Sn & En).
      destruct (consts_rel op args' e' Wn H) as (A & B & C).
      split; [exact A|]. split; congruence.
    - (* conditional *)
      pose proof W1 as W'. simpl in W'. repeat (apply andb_true_iff in W' as [W' ?]). rename H0 into Sab, H1 into Wb, H2 into Wa. apply Z.eqb_eq in Sab.
      destruct (eval_expr f s c) as [[c'| |]|] eqn:Ec; simpl in H; try discriminate.
      destruct (eval_expr f s a) as [[a'| |]|] eqn:Ea; simpl in H; try discriminate.
      destruct (eval_expr f s b) as [[b'| |]|] eqn:Eb; simpl in H; try discriminate.
      destruct (IH _ _ W' Ec) as (Wc' & Sc' & Evc). destruct (IH _ _ Wa Ea) as (Wa' & Sa' & Eva). destruct (IH _ _ Wb Eb) as (Wb' & Sb' & Evb).
      assert (Gen : rel (ECond c a b) (ECond c' a' b')).
      { split; [|split].
        - simpl. rewrite Wc', Wa', Wb'. cbn [andb]. apply Z.eqb_eq. congruence.
        - simpl. exact Sa'.
        - simpl. rewrite Evc, Eva, Evb. reflexivity. }
      destruct c' as [sgc wc vc| | | | | | |]; try (inversion H; subst e'; exact Gen).
      inversion H; subst e'. destruct (wf_int_inv false IdQ rho mu iota _ _ _ Wc') as (_ & _ & _ & Ev0).
      assert (Q : (vc =? 0) = (ev' c =? 0)) by (rewrite <- Evc, Ev0; reflexivity).
      destruct (vc =? 0) eqn:Z0.
      + split; [exact Wb'|]. split; [simpl; congruence|]. simpl. rewrite <- Q. exact Evb.
      + split; [exact Wa'|]. split; [simpl; congruence|]. simpl. rewrite <- Q. exact Eva.
    - (* slice *)
      destruct (wf_slice_inv false IdQ _ _ _ W1) as (Wsa & L0 & Llh & Lhs).
      destruct (eval_expr f s sa) as [[y| |]|] eqn:Ea; simpl in H; try discriminate.
      unfold lift at 1 in H. destruct (simpF y) as [a'| |] eqn:Es; simpl in H; try discriminate.
      assert (Ra : rel sa a') by (apply (rel_after_good sa y a' (IH _ _ Wsa Ea)); apply simpF_good; [apply (IH _ _ Wsa Ea) | exact Es]).
      destruct Ra as (Wa' & Sa' & Eva).
      assert (Gen : rel (ESlice sa lo hi) (ESlice a' lo hi)).
      { split; [|split; [reflexivity|]].
        - simpl. rewrite Wa', Sa'. cbn [andb]. apply andb_true_iff. split; [apply andb_true_iff; split; [apply Z.leb_le; lia | apply Z.ltb_lt; lia] | apply Z.leb_le; lia].
        - simpl. rewrite Eva. reflexivity. }
      destruct a' as [sgi wi vi| |am wm sm| | | | |]; try (inversion H; subst e'; exact Gen).
      + unfold lift in H. destruct (simpF (ESlice (EInt sgi wi vi) lo hi)) as [z| |] eqn:Ez; simpl in H; try discriminate. inversion H; subst e'.
        apply (rel_after_good _ _ z Gen). apply simpF_good; [apply Gen | exact Ez].
      + destruct ((lo =? 0) && (hi =? wm)) eqn:Full; inversion H; subst e'; [|exact Gen].
        apply andb_true_iff in Full as [F1 F2]. apply Z.eqb_eq in F1, F2. subst lo hi. simpl in Sa'.
        split; [exact Wa'|]. split; [simpl; lia|].
        rewrite Eva. change (ev' (ESlice sa 0 wm)) with (wrap (wm - 0) (Z.shiftr (ev' sa) 0)).
        destruct (wf_range false IdQ rho' mu iota sa Wsa) as [_ R]. rewrite <- Sa' in R. symmetry. rewrite Z.shiftr_0_r, Z.sub_0_r. apply Z.mod_small. exact R.
  Qed.
End Subst.

(** * The theorem *)
Theorem eval_expr_is_substitution : forall (Sig : string -> Z * bool * bool) (s : pool),
  pool_mem s = [] -> Forall (binding_ok Sig) (pool_id s) ->
  forall fuel e e', wf false (IdQ Sig) e = true -> eval_expr fuel s e = inl (Ok e') ->
  wf false (IdQ Sig) e' = true /\ size e' = size e /\
  forall rho mu iota, eval rho mu iota e' = eval (rho' s rho mu iota) mu iota e.
Proof.
  intros Sig s Hm Hp fuel e e' W H.
  destruct (eval_expr_rel Sig s Hm Hp (fun _ => 0) (fun _ => 0) (fun _ _ => 0) fuel e e' W H) as (A & B & _).
  split; [exact A|]. split; [exact B|]. intros rho mu iota. apply (eval_expr_rel Sig s Hm Hp rho mu iota fuel e e' W H).
Qed.
