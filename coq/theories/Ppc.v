(** Ppc.v — model of the PowerPC class tests and field codecs of miasmx/arch/ppc_arch.py
    (ppc_mnemo_metaclass.check / class_from_op, bm.get_val / set_val / parse / bin, ppc_mn.bin),
    interpreting the class descriptions dumped into MxGen.PpcTables (tie D + H).  No proofs here. *)
From Coq Require Import ZArith List Bool String.
Import ListNotations.
Open Scope Z_scope.

(** a constraint of a class test: ((w >> off) & mask) == val / != val / in vals *)
Inductive pcon := CEq (off mask val : Z) | CNe (off mask val : Z) | CIn (off mask : Z) (vals : list Z).
(** class = name, constraints, fields (offset, length, codec kind (0 plain, 1 offs), checkinv) *)
Record pclass := mkpclass { pc_name : string; pc_cons : list pcon; pc_fields : list (Z * Z * Z * Z) }.

Definition fieldv (w off mask : Z) : Z := Z.land (Z.shiftr w off) mask.
Definition con_ok (w : Z) (k : pcon) : bool :=
  match k with
  | CEq off mask val => fieldv w off mask =? val
  | CNe off mask val => negb (fieldv w off mask =? val)
  | CIn off mask vals => existsb (Z.eqb (fieldv w off mask)) vals
  end.
Definition check (c : pclass) (w : Z) : bool := forallb (con_ok w) (pc_cons c).

(** class_from_op: the classes claiming a word (exactly one is required, otherwise ValueError) *)
Definition claimants (cs : list pclass) (w : Z) : list pclass := filter (fun c => check c w) cs.

(** parse then bin: every field is extracted (get_val) and re-inserted (set_val); fields flagged checkinv are
    skipped by ppc_mn.bin; the offs codec shifts left by 2 and sign-extends on parse, shifts back on bin *)
Definition offs_parse (v : Z) : Z := let x := Z.shiftl v 2 in if Z.testbit x 25 then Z.lor x 4227858432 else x.
Definition offs_bin (o : Z) : Z := Z.land (Z.shiftr o 2) 16777215.
Definition field_roundtrip (w : Z) (f : Z * Z * Z * Z) : Z :=
  let '(off, l, kind, inv) := f in
  if inv =? 1 then 0 else
  let v := Z.land (Z.shiftr w off) (Z.ones l) in
  let v' := if kind =? 1 then offs_bin (offs_parse v) else v in
  Z.shiftl (Z.land v' (Z.ones l)) off.
Definition reencode (c : pclass) (w : Z) : Z := fold_left (fun acc f => Z.lor acc (field_roundtrip w f)) (pc_fields c) 0.

(** sufficient test for two constraints to be contradictory (proved sound in PpcProofs) *)
Definition abs_mask (off mask : Z) : Z := Z.shiftl mask off.
Definition abs_val (off val : Z) : Z := Z.shiftl val off.
Definition eq_conflict (o1 m1 v1 o2 m2 v2 : Z) : bool :=
  negb (Z.land (Z.lxor (abs_val o1 v1) (abs_val o2 v2)) (Z.land (abs_mask o1 m1) (abs_mask o2 m2)) =? 0).
Definition conflict (a b : pcon) : bool :=
  match a, b with
  | CEq o1 m1 v1, CEq o2 m2 v2 => eq_conflict o1 m1 v1 o2 m2 v2
  | CEq o1 m1 v1, CIn o2 m2 vs | CIn o2 m2 vs, CEq o1 m1 v1 => forallb (fun v2 => eq_conflict o1 m1 v1 o2 m2 v2) vs
  | CIn o1 m1 vs1, CIn o2 m2 vs2 => forallb (fun v1 => forallb (fun v2 => eq_conflict o1 m1 v1 o2 m2 v2) vs2) vs1
  | CEq o1 m1 v1, CNe o2 m2 v2 | CNe o2 m2 v2, CEq o1 m1 v1 => (o1 =? o2) && (m1 =? m2) && (v1 =? v2)
  | _, _ => false
  end.
Definition disjointb (c1 c2 : pclass) : bool :=
  existsb (fun a => existsb (fun b => conflict a b) (pc_cons c2)) (pc_cons c1).
Fixpoint all_pairs_disjoint (cs : list pclass) : bool :=
  match cs with
  | [] => true
  | c :: r => forallb (disjointb c) r && all_pairs_disjoint r
  end.

(** well-formedness of a dumped constraint: a non-negative bit offset (all the soundness proof needs) *)
Definition con_wf (k : pcon) : bool :=
  match k with CEq off _ _ | CNe off _ _ | CIn off _ _ => 0 <=? off end.
Definition class_wf (c : pclass) : bool := forallb con_wf (pc_cons c).

Definition total_mask (c : pclass) : Z :=
  fold_left (fun acc f => let '(off, l, kind, inv) := f in Z.lor acc (Z.shiftl (Z.ones l) off)) (pc_fields c) 0.
Definition plain_fields (c : pclass) : bool :=
  forallb (fun f => let '(off, l, kind, inv) := f in (kind =? 0) && (inv =? 0) && (0 <=? off) && (0 <=? l)) (pc_fields c).
