(** CanonProofs.v — canonize() preserves width and value on well-formed trees (C15): sorting the operands of a commutative-
    associative operator changes neither, because all operands have one width and the operator is a fold of a commutative,
    associative function modulo 2^w. *)
From Coq Require Import ZArith List Bool String Lia Permutation.
From Mx Require Import Expr ExprProofs Simp ComposeProofs SimpProofs.
Import ListNotations.
Open Scope list_scope.
Open Scope Z_scope.

Lemma mapM_ok_map {A B} (f : A -> B) l : mapM (fun x => Ok (f x)) l = Ok (map f l).
Proof. induction l as [|a l IH]; simpl; [reflexivity | rewrite IH; reflexivity]. Qed.
Lemma mapM_ext {A B} (f g : A -> res B) l : Forall (fun x => f x = g x) l -> mapM f l = mapM g l.
Proof. induction 1 as [|a l Ha _ IH]; simpl; [reflexivity | rewrite Ha, IH; reflexivity]. Qed.

(** the pure traversal is the monadic one with a total callback *)
Lemma visit_as_visitM cb : forall e, visitM (fun x => Ok (cb x)) e = Ok (visit cb e).
Proof.
  induction e using expr_ind'; simpl; try reflexivity.
  - destruct s as [u|]; simpl in *; [rewrite H|]; cbn [bind]; rewrite IHe; reflexivity.
  - rewrite (mapM_ext (visitM (fun x => Ok (cb x))) (fun x => Ok (visit cb x)) args H), mapM_ok_map. reflexivity.
  - rewrite IHe1, IHe2, IHe3. reflexivity.
  - rewrite IHe. reflexivity.
  - erewrite (mapM_ext _ (fun s => Ok (visit cb (slot_e s), slot_lo s, slot_hi s)) args), mapM_ok_map; [reflexivity|].
    eapply Forall_impl; [|exact H]. intros sl Hs. cbn beta in *. rewrite Hs. reflexivity.
  - rewrite IHe1, IHe2. reflexivity.
Qed.

Section Canon.
  Variable ac : bool.
  Variable IdQ : string -> Z -> bool -> bool -> bool.
  Variable rho : string -> Z.
  Variable mu : Z -> Z.
  Variable iota : string -> list Z -> Z.

  (** the slots of a concatenation in any order *)
  Lemma compose_perm_good l l' : wf ac IdQ (ECompose l) = true -> Permutation l l' -> good ac IdQ rho mu iota (ECompose l) (ECompose l').
  Proof.
    intros W P. destruct (wf_compose_inv ac IdQ l W) as (A & Ne & Hs & Nd & (a0 & Ia0 & Z0) & Oc).
    assert (Wc : wf ac IdQ (ECompose l') = true).
    { apply wf_compose_intro; try assumption.
      - intros E. subst l'. apply Permutation_sym, Permutation_nil in P. contradiction.
      - intros s Is. apply Hs. apply (Permutation_in _ (Permutation_sym P)). exact Is.
      - apply (Permutation_NoDup (Permutation_map slot_lo P)). exact Nd.
      - exists a0. split; [apply (Permutation_in _ P); exact Ia0 | exact Z0].
      - intros i. rewrite <- (occ_perm _ _ i P). apply Oc. }
    split; [exact Wc|]. split.
    - rewrite (proj1 (wf_compose_size ac IdQ _ Wc)), (proj1 (wf_compose_size ac IdQ _ W)). apply Z.le_antisymm.
      + unfold maxhi at 1. destruct (fold_max_in l' 0) as [Q|(s & Is & Q)]; [rewrite Q; destruct (wf_compose_size ac IdQ _ W) as (_ & Pn & _); lia|]. rewrite Q.
        apply (proj2 (fold_max_ge l 0)). apply (Permutation_in _ (Permutation_sym P)). exact Is.
      + unfold maxhi at 1. destruct (fold_max_in l 0) as [Q|(s & Is & Q)]; [rewrite Q; destruct (wf_compose_size ac IdQ _ Wc) as (_ & Pn & _); lia|]. rewrite Q.
        apply (proj2 (fold_max_ge l' 0)). apply (Permutation_in _ P). exact Is.
    - rewrite !eval_compose_V. symmetry. apply V_perm. exact P.
  Qed.

  Lemma canon_cb_good x : wf ac IdQ x = true -> good ac IdQ rho mu iota x (canon_cb x).
  Proof.
    intros W. destruct x as [| | |op args| | |slots|]; try (simpl in W; discriminate); try (apply good_refl; exact W).
    2:{ unfold canon_cb. apply compose_perm_good; [exact W|]. apply Permutation_sym. apply (sort_by_perm key_slot slots). }
    unfold canon_cb. destruct (is_assoc op) eqn:A; [|apply good_refl; exact W].
    assert (NS : is_sr op = false) by (unfold is_assoc in A; unfold is_sr, is_shift, is_rot; destruct (opk_of op); try discriminate; reflexivity).
    destruct (wf_op_inv ac IdQ _ _ W NS) as (Wl & a & r & -> & _ & Sl).
    assert (Hn : 0 < size a) by (inversion Wl; subst; apply (wf_range ac IdQ rho mu iota); assumption).
    assert (K : exists k, aop_of op = Some k) by (unfold is_assoc in A; unfold aop_of; destruct (opk_of op); try discriminate; eauto).
    destruct K as [k K].
    pose proof (sort_by_perm key_expr (a :: r)) as Pm. fold (canonize_expr_list (a :: r)) in Pm.
    assert (NE : a :: r <> []) by discriminate.
    assert (G : wf ac IdQ (EOp op (canonize_expr_list (a :: r))) = true /\ size (EOp op (canonize_expr_list (a :: r))) = size a /\
                eval rho mu iota (EOp op (canonize_expr_list (a :: r))) = eval rho mu iota (EOp op (a :: r))).
    2:{ destruct G as (G1 & G2 & G3). split; [exact G1|]. split; [rewrite G2; symmetry; apply (size_node op); lia | exact G3]. }
    apply (node_of_list ac IdQ rho mu iota op k (size a) (a :: r) (canonize_expr_list (a :: r)) K Hn Wl Sl NE).
    - eapply all_perm; [apply Permutation_sym; exact Pm | exact Wl].
    - eapply all_perm; [apply Permutation_sym; exact Pm | exact Sl].
    - intros E. rewrite E in Pm. apply Permutation_nil in Pm. discriminate.
    - rewrite (afold_perm k _ _ (Permutation_map (eval rho mu iota) Pm)). apply cong_refl.
  Qed.

  Theorem canonize_good e : wf ac IdQ e = true -> good ac IdQ rho mu iota e (canonize e).
  Proof.
    intros W. unfold canonize.
    apply (visit_good ac IdQ rho mu iota (fun x => Ok (canon_cb x))); [| |exact W | apply visit_as_visitM].
    - intros x x' Wx Hx. inversion Hx; subst. apply canon_cb_good. exact Wx.
    - intros sg w v x' Hx. inversion Hx; subst. reflexivity.
  Qed.
End Canon.

Theorem canonize_preserves : forall (ac : bool) (Q : string -> Z -> bool -> bool -> bool) e, wf ac Q e = true ->
  wf ac Q (canonize e) = true /\ size (canonize e) = size e /\ forall rho mu iota, eval rho mu iota (canonize e) = eval rho mu iota e.
Proof.
  intros ac Q e W. destruct (canonize_good ac Q (fun _ => 0) (fun _ => 0) (fun _ _ => 0) e W) as (A & B & _).
  split; [exact A|]. split; [exact B|]. intros rho mu iota. apply (canonize_good ac Q rho mu iota e W).
Qed.
