(** CanonProofs.v — canonize() preserves width and value on well-formed trees (C15): sorting the operands of a commutative-
    associative operator changes neither, because all operands have one width and the operator is a fold of a commutative,
    associative function modulo 2^w. *)
From Coq Require Import ZArith List Bool String Lia Permutation.
From Mx Require Import Expr ExprProofs Simp SimpProofs.
Import ListNotations.
Open Scope list_scope.
Open Scope Z_scope.

Lemma mapM_ok_map {A B} (f : A -> B) l : mapM (fun x => Ok (f x)) l = Ok (map f l).
Proof. induction l as [|a l IH]; simpl; [reflexivity | rewrite IH; reflexivity]. Qed.
Lemma mapM_ext {A B} (f g : A -> res B) l : Forall (fun x => f x = g x) l -> mapM f l = mapM g l.
Proof. induction 1 as [|a l Ha _ IH]; simpl; [reflexivity | rewrite Ha, IH; reflexivity]. Qed.

(** the pure traversal is the monadic one with a total callback *)
Lemma visit_as_visitM cb : forall e, visitM (fun x => Ok (cb x)) e = Ok (visit cb e).
Proof.
  induction e using expr_ind'; simpl; try reflexivity.
  - destruct s as [u|]; simpl in *; [rewrite H|]; cbn [bind]; rewrite IHe; reflexivity.
  - rewrite (mapM_ext (visitM (fun x => Ok (cb x))) (fun x => Ok (visit cb x)) args H), mapM_ok_map. reflexivity.
  - rewrite IHe1, IHe2, IHe3. reflexivity.
  - rewrite IHe. reflexivity.
  - erewrite (mapM_ext _ (fun s => Ok (visit cb (slot_e s), slot_lo s, slot_hi s)) args), mapM_ok_map; [reflexivity|].
    eapply Forall_impl; [|exact H]. intros sl Hs. cbn beta in *. rewrite Hs. reflexivity.
  - rewrite IHe1, IHe2. reflexivity.
Qed.

Section Canon.
  Variable IdQ : string -> Z -> bool -> bool -> bool.
  Variable rho : string -> Z.
  Variable mu : Z -> Z.
  Variable iota : string -> list Z -> Z.

  Lemma canon_cb_good x : wf false IdQ x = true -> good false IdQ rho mu iota x (canon_cb x).
  Proof.
    intros W. destruct x as [| | |op args| | | |]; try (simpl in W; discriminate); try (apply good_refl; exact W).
    unfold canon_cb. destruct (is_assoc op) eqn:A; [|apply good_refl; exact W].
    assert (NS : is_shift op = false) by (unfold is_assoc in A; unfold is_shift; destruct (opk_of op); try discriminate; reflexivity).
    destruct (wf_op_inv false IdQ _ _ W NS) as (Wl & a & r & -> & _ & Sl).
    assert (Hn : 0 < size a) by (inversion Wl; subst; apply (wf_range false IdQ rho mu iota); assumption).
    assert (K : exists k, aop_of op = Some k) by (unfold is_assoc in A; unfold aop_of; destruct (opk_of op); try discriminate; eauto).
    destruct K as [k K].
    pose proof (sort_by_perm key_expr (a :: r)) as Pm. fold (canonize_expr_list (a :: r)) in Pm.
    assert (NE : a :: r <> []) by discriminate.
    assert (G : wf false IdQ (EOp op (canonize_expr_list (a :: r))) = true /\ size (EOp op (canonize_expr_list (a :: r))) = size a /\
                eval rho mu iota (EOp op (canonize_expr_list (a :: r))) = eval rho mu iota (EOp op (a :: r))).
    2:{ destruct G as (G1 & G2 & G3). split; [exact G1|]. split; [rewrite G2; symmetry; apply (size_node op); lia | exact G3]. }
    apply (node_of_list false IdQ rho mu iota op k (size a) (a :: r) (canonize_expr_list (a :: r)) K Hn Wl Sl NE).
    - eapply all_perm; [apply Permutation_sym; exact Pm | exact Wl].
    - eapply all_perm; [apply Permutation_sym; exact Pm | exact Sl].
    - intros E. rewrite E in Pm. apply Permutation_nil in Pm. discriminate.
    - rewrite (afold_perm k _ _ (Permutation_map (eval rho mu iota) Pm)). apply cong_refl.
  Qed.

  Theorem canonize_good e : wf false IdQ e = true -> good false IdQ rho mu iota e (canonize e).
  Proof.
    intros W. unfold canonize.
    apply (visit_good false IdQ rho mu iota (fun x => Ok (canon_cb x))); [| |exact W | apply visit_as_visitM].
    - intros x x' Wx Hx. inversion Hx; subst. apply canon_cb_good. exact Wx.
    - intros sg w v x' Hx. inversion Hx; subst. reflexivity.
  Qed.
End Canon.

Theorem canonize_preserves : forall (Q : string -> Z -> bool -> bool -> bool) e, wf false Q e = true ->
  wf false Q (canonize e) = true /\ size (canonize e) = size e /\ forall rho mu iota, eval rho mu iota (canonize e) = eval rho mu iota e.
Proof.
  intros Q e W. destruct (canonize_good Q (fun _ => 0) (fun _ => 0) (fun _ _ => 0) e W) as (A & B & _).
  split; [exact A|]. split; [exact B|]. intros rho mu iota. apply (canonize_good Q rho mu iota e W).
Qed.
