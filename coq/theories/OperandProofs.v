(** OperandProofs.v — spelling-independence facts of the operand algebra (C19). *)
From Coq Require Import ZArith List Bool Lia.
From Mx Require Import Operand.
Import ListNotations.
Open Scope Z_scope.

(** numbers with the same value modulo 2^32 are the same operand: 16 / 0x10, -1 / 0xFFFFFFFF *)
Theorem norm32_congr n m : n mod 2 ^ 32 = m mod 2 ^ 32 -> norm32 n = norm32 m.
Proof. unfold norm32. intros ->. reflexivity. Qed.
Theorem norm32_value n : (norm32 n) mod 2 ^ 32 = n mod 2 ^ 32 /\ - 2 ^ 31 <= norm32 n < 2 ^ 31.
Proof.
  unfold norm32. pose proof (Z.mod_pos_bound n (2 ^ 32) ltac:(reflexivity)) as B. change (2 ^ 32) with (2 * 2 ^ 31) in *.
  destruct (n mod (2 * 2 ^ 31) <? 2 ^ 31) eqn:E.
  - apply Z.ltb_lt in E. split; [apply Z.mod_mod; lia | lia].
  - apply Z.ltb_ge in E. split; [|lia].
    replace (n mod (2 * 2 ^ 31) - 2 * 2 ^ 31) with (n mod (2 * 2 ^ 31) + (-1) * (2 * 2 ^ 31)) by lia. rewrite Z.mod_add by lia. apply Z.mod_mod. lia.
Qed.

Lemma lookup_remove d k k' : lookup (remove d k) k' = if k =? k' then None else lookup d k'.
Proof.
  induction d as [|[k0 v0] d IH]; simpl; [destruct (k =? k'); reflexivity|].
  destruct (k0 =? k) eqn:E.
  - apply Z.eqb_eq in E. subst k0. rewrite IH. destruct (k =? k'); reflexivity.
  - simpl. rewrite IH. destruct (k0 =? k') eqn:E2; [|reflexivity].
    apply Z.eqb_eq in E2. subst k0. rewrite Z.eqb_sym, E. reflexivity.
Qed.
Lemma lookup_set d k v k' : lookup (set d k v) k' = if k =? k' then Some v else lookup d k'.
Proof.
  induction d as [|[k0 v0] d IH]; simpl; [reflexivity|].
  destruct (k0 =? k) eqn:E.
  - apply Z.eqb_eq in E. subst k0. simpl. destruct (k =? k'); reflexivity.
  - simpl. rewrite IH. destruct (k0 =? k') eqn:E2; [|reflexivity].
    apply Z.eqb_eq in E2. subst k0. rewrite Z.eqb_sym, E. reflexivity.
Qed.
Lemma coef_upd d k v k' : coef (upd d k v) k' = if k =? k' then v else coef d k'.
Proof.
  unfold coef, upd. destruct (v =? 0) eqn:E.
  - rewrite lookup_remove. apply Z.eqb_eq in E. subst v. destruct (k =? k'); reflexivity.
  - rewrite lookup_set. destruct (k =? k'); reflexivity.
Qed.

(** total contribution of the entries of b with key k *)
Fixpoint total (b : odict) (k : Z) : Z := match b with [] => 0 | (k', v) :: r => (if k' =? k then v else 0) + total r k end.
Lemma total_coef b k : NoDup (map fst b) -> total b k = coef b k.
Proof.
  induction b as [|[k0 v0] b IH]; intros ND; [reflexivity|]. inversion ND as [|? ? Nin ND']; subst.
  unfold coef in *. simpl. destruct (k0 =? k) eqn:E.
  - apply Z.eqb_eq in E. subst k0. assert (T : total b k = 0).
    { clear IH ND ND'. induction b as [|[k1 v1] b IHb]; [reflexivity|]. simpl in *. destruct (k1 =? k) eqn:E1.
      - apply Z.eqb_eq in E1. subst. exfalso. apply Nin. left. reflexivity.
      - rewrite IHb; [lia | intros H; apply Nin; right; assumption]. }
    lia.
  - rewrite IH by assumption. lia.
Qed.

Lemma coef_fold_add b : forall a k, coef (fold_left (fun tmp kv => upd tmp (fst kv) (coef tmp (fst kv) + snd kv)) b a) k = coef a k + total b k.
Proof.
  induction b as [|[k0 v0] b IH]; intros a k; simpl; [lia|].
  rewrite IH, coef_upd. destruct (k0 =? k) eqn:E; [apply Z.eqb_eq in E; subst; lia | lia].
Qed.
Lemma coef_fold_sub b : forall a k, coef (fold_left (fun tmp kv => upd tmp (fst kv) (coef tmp (fst kv) - snd kv)) b a) k = coef a k - total b k.
Proof.
  induction b as [|[k0 v0] b IH]; intros a k; simpl; [lia|].
  rewrite IH, coef_upd. destruct (k0 =? k) eqn:E; [apply Z.eqb_eq in E; subst; lia | lia].
Qed.

(** the coefficient of every key (register, immediate, scale) of a sum / difference / multiple is the sum / difference / multiple *)
Theorem dict_add_coef a b k : NoDup (map fst b) -> coef (dict_add a b) k = coef a k + coef b k.
Proof. intros ND. unfold dict_add. rewrite coef_fold_add, total_coef by assumption. reflexivity. Qed.
Theorem dict_sub_coef a b k : NoDup (map fst b) -> coef (dict_sub a b) k = coef a k - coef b k.
Proof. intros ND. unfold dict_sub. rewrite coef_fold_sub, total_coef by assumption. reflexivity. Qed.
Theorem dict_scale_coef c b k : coef (dict_scale c b) k = c * coef b k.
Proof.
  unfold coef, dict_scale. induction b as [|[k0 v0] b IH]; simpl; [lia|]. destruct (k0 =? k); [reflexivity | exact IH].
Qed.
(** hence the order of the terms of a memory operand does not change what it denotes: [eax+4] / [4+eax], [ebx+esi*2] / [esi*2+ebx] *)
Corollary dict_add_comm a b k : NoDup (map fst a) -> NoDup (map fst b) -> coef (dict_add a b) k = coef (dict_add b a) k.
Proof. intros Na Nb. rewrite !dict_add_coef by assumption. lia. Qed.
Corollary dict_add_assoc a b c k : NoDup (map fst b) -> NoDup (map fst c) -> NoDup (map fst (dict_add b c)) ->
  coef (dict_add (dict_add a b) c) k = coef (dict_add a (dict_add b c)) k.
Proof. intros Nb Nc Nbc. rewrite !dict_add_coef by assumption. lia. Qed.
