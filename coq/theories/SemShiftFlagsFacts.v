(** SemShiftFlagsFacts.v — reflection obligation: every sal(shl) / shr / sar / rol / ror / rcl / rcr form of the lifted dump regenerated from
    /repo is, node for node and flags included, the mirror SemShiftFlags.mirror_shf of the operand expressions the lifter was called with. *)
From Coq Require Import ZArith List Bool String.
From Mx Require Import Expr Wf Sem SemShift SemShiftFlags SemShiftFlagsProofs.
From MxGen Require Import LiftAll.
Import ListNotations.
Definition shf_tie_ok (c : lcase) : bool :=
  match shf_of (lc_mnemo c), lc_lift c with
  | Some k, Some l => is_shf_mirror k (lc_args c) l
  | _, _ => true
  end.
Lemma shf_forms_are_mirrors : forallb (forallb shf_tie_ok) shards = true.
Proof. vm_compute. reflexivity. Qed.
Lemma shf_forms_lifted : forall sh c k l, In sh shards -> In c sh -> shf_of (lc_mnemo c) = Some k -> lc_lift c = Some l -> is_shf_mirror k (lc_args c) l = true.
Proof.
  intros sh c k l Hs Hc Hk Hl. pose proof shf_forms_are_mirrors as H. rewrite forallb_forall in H. specialize (H _ Hs). rewrite forallb_forall in H.
  specialize (H _ Hc). unfold shf_tie_ok in H. rewrite Hk, Hl in H. exact H.
Qed.
Definition n_shf : nat :=
  fold_left (fun acc sh => fold_left (fun acc c => match shf_of (lc_mnemo c), lc_lift c with Some k, Some l => if is_shf_mirror k (lc_args c) l then S acc else acc | _, _ => acc end) sh acc) shards O.
Lemma many_shf_forms : (750 <= n_shf)%nat.
Proof. vm_compute. repeat constructor. Qed.
