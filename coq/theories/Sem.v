(** Sem.v — mirror of the arithmetic / logic group of the x86 lifter (miasmx/arch/ia32_sem.py: flag helpers, add adc sub
    sbb cmp inc dec neg and or xor test not mov) as Gallina functions from operand expressions to assignment lists, and the
    recogniser that ties a lifted list regenerated from /repo (tie S) to the mirror by syntactic identity.
    No proofs in this file. *)
From Coq Require Import ZArith List Bool String.
From Mx Require Import Expr.
Import ListNotations.
Open Scope string_scope.
Open Scope list_scope.
Open Scope Z_scope.

Definition flag (n : string) : expr := EId n 1 true false.
Definition i1 (v : Z) : expr := EInt false 1 v.
Definition int_from (a : expr) (v : Z) : expr := EInt false (size a) v.          (* ExprInt_from(a, v), value already reduced *)
Definition msb (a : expr) : expr := ESlice a (size a - 1) (size a).              (* get_op_msb *)
Definition e_xor (a b : expr) : expr := EOp "^" [a; b].
Definition e_and (a b : expr) : expr := EOp "&" [a; b].
Definition e_not (a : expr) : expr := EOp "^" [a; int_from a (2 ^ size a - 1)].  (* Expr.__invert__ *)

Definition upd_zf (c : expr) : expr := EAff (flag "zf") (ECond c (i1 0) (i1 1)).
Definition upd_nf (c : expr) : expr := EAff (flag "nf") (msb c).
Definition upd_pf (c : expr) : expr := EAff (flag "pf") (EOp "parity" [c]).
Definition upd_af (c : expr) : expr := EAff (flag "af") (ECond (e_and c (int_from c 16)) (i1 1) (i1 0)).
Definition upd_znp (c : expr) : list expr := [upd_zf c; upd_nf c; upd_pf c].
Definition add_cf_src (a b c : expr) : expr := e_xor (msb (e_xor (e_xor a b) c)) (msb (e_and (e_xor a c) (e_not (e_xor a b)))).
Definition add_of_src (a b c : expr) : expr := msb (e_and (e_xor a c) (e_not (e_xor a b))).
Definition sub_cf_src (a b c : expr) : expr := e_xor (msb (e_xor (e_xor a b) c)) (msb (e_and (e_xor a c) (e_xor a b))).
Definition sub_of_src (a b c : expr) : expr := msb (e_and (e_xor a c) (e_xor a b)).

(** ExprAff.__init__: an assignment to a slice of a register becomes the whole-register concatenation *)
Definition mk_aff (dst src : expr) : expr :=
  match dst with
  | ESlice r lo hi =>
      let rest := (if lo =? 0 then [] else [(ESlice r 0 lo, 0, lo)]) ++ (if hi <? size r then [(ESlice r hi (size r), hi, size r)] else []) in
      let slots := if lo =? 0 then (src, lo, hi) :: rest else match rest with s0 :: r' => s0 :: (src, lo, hi) :: r' | [] => [(src, lo, hi)] end in
      EAff r (ECompose slots)
  | _ => EAff dst src
  end.

Definition carry_in : expr := ECompose [(EInt false 32 0, 1, 32); (flag "cf", 0, 1)].   (* placeholder width: see cin below *)
Definition cin (a : expr) : expr := ECompose [(EInt false 32 0, 1, size a); (flag "cf", 0, 1)].

Inductive alu := Add | Adc | Sub | Sbb | Cmp | And | Or | Xor | Test.
Definition alu_of (mn : string) : option alu :=
  if (mn =? "add")%string then Some Add else if (mn =? "adc")%string then Some Adc else if (mn =? "sub")%string then Some Sub
  else if (mn =? "sbb")%string then Some Sbb else if (mn =? "cmp")%string then Some Cmp else if (mn =? "and")%string then Some And
  else if (mn =? "or")%string then Some Or else if (mn =? "xor")%string then Some Xor else if (mn =? "test")%string then Some Test else None.

(** the value expression c of each instruction *)
Definition alu_val (k : alu) (a b : expr) : expr :=
  match k with
  | Add => EOp "+" [a; b] | Adc => EOp "+" [a; EOp "+" [b; cin a]]
  | Sub | Cmp => EOp "-" [a; b] | Sbb => EOp "-" [a; EOp "+" [b; cin a]]
  | And | Test => EOp "&" [a; b] | Or => EOp "|" [a; b] | Xor => EOp "^" [a; b]
  end.
Definition logic_flags (c : expr) : list expr := upd_znp c ++ [EAff (flag "of") (EInt false 32 0); EAff (flag "cf") (EInt false 32 0)].
(** the mirror: the assignment list ia32_sem builds for operands a, b *)
Definition mirror (k : alu) (a b : expr) : list expr :=
  let c := alu_val k a b in
  match k with
  | Add | Adc => upd_znp c ++ [upd_af c; EAff (flag "cf") (add_cf_src a b c); EAff (flag "of") (add_of_src a b c); mk_aff a c]
  | Sub | Sbb => upd_znp c ++ [upd_af c; EAff (flag "cf") (sub_cf_src a b c); EAff (flag "of") (sub_of_src a b c); mk_aff a c]
  | Cmp => upd_znp c ++ [EAff (flag "cf") (sub_cf_src a b c); EAff (flag "of") (sub_of_src a b c); upd_af c]
  | And | Or | Xor => logic_flags c ++ [mk_aff a c]
  | Test => logic_flags c
  end.

(** operands the lifter produces: registers, sub-registers, memory cells, immediates — all of the form wrap n (...) *)
Definition operand_ok (a : expr) : bool :=
  match a with
  | EId _ w _ _ => 0 <? w
  | EMem _ w _ => 0 <? w
  | EInt _ w _ => 0 <? w
  | ESlice (EId _ w _ _) lo hi => (0 <=? lo) && (lo <? hi) && (hi <=? w)
  | _ => false
  end.

(** recover the operands from the first assignment (zf) of a lifted list and compare the whole list with the mirror *)
Definition operands_of (k : alu) (l : list expr) : option (expr * expr) :=
  match l with
  | EAff _ (ECond (EOp _ [a; b']) _ _) :: _ =>
      match k, b' with
      | (Adc | Sbb), EOp _ [b; _] => Some (a, b)
      | (Adc | Sbb), _ => None
      | _, _ => Some (a, b')
      end
  | _ => None
  end.
Fixpoint list_expr_eqb (l l' : list expr) : bool :=
  match l, l' with [], [] => true | x :: r, y :: r' => expr_eqb x y && list_expr_eqb r r' | _, _ => false end.
Definition is_mirror (k : alu) (l : list expr) : bool :=
  match operands_of k l with
  | Some (a, b) => operand_ok a && operand_ok b && (size a =? size b) && ((size a =? 8) || (size a =? 16) || (size a =? 32)) && list_expr_eqb l (mirror k a b)
  | None => false
  end.

(** * inc / dec / neg: one operand; the other is a constant of its width *)
Inductive una := Inc | Dec | Neg.
Definition una_of (mn : string) : option una :=
  if (mn =? "inc")%string then Some Inc else if (mn =? "dec")%string then Some Dec else if (mn =? "neg")%string then Some Neg else None.
Definition una_const (k : una) (a : expr) : expr :=
  match k with Inc => int_from a 1 | Dec => int_from a (2 ^ size a - 1) | Neg => int_from a 0 end.
Definition mirror_u (k : una) (a : expr) : list expr :=
  let b := una_const k a in
  match k with
  | Inc | Dec => let c := alu_val Add a b in upd_znp c ++ [upd_af c; EAff (flag "of") (add_of_src a b c); mk_aff a c]
  | Neg => let c := alu_val Sub b a in upd_znp c ++ [EAff (flag "cf") (sub_cf_src b a c); EAff (flag "of") (sub_of_src b a c); upd_af c; mk_aff a c]
  end.
Definition operand_of_u (k : una) (l : list expr) : option expr :=
  match l with
  | EAff _ (ECond (EOp _ [x; y]) _ _) :: _ => match k with Neg => Some y | _ => Some x end
  | _ => None
  end.
Definition is_mirror_u (k : una) (l : list expr) : bool :=
  match operand_of_u k l with
  | Some a => operand_ok a && ((size a =? 8) || (size a =? 16) || (size a =? 32)) && list_expr_eqb l (mirror_u k a)
  | None => false
  end.
