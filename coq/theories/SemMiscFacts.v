(** SemMiscFacts.v — reflection obligation: every xadd / cmps / scas / loop / loope / loopne / jecxz / cdq / bt / btc / bts / btr / bswap /
    cmpxchg form of the lifted dump regenerated from /repo is, node for node, the mirror SemMisc.mirror_misc of its dumped operands,
    operand-size flag and next-instruction address — except the forms the mirror declines (bswap of a 16-bit register, whose result
    the architecture leaves undefined). *)
From Coq Require Import ZArith List Bool String.
From Mx Require Import Expr Wf Sem SemProofs SemMisc.
From MxGen Require Import LiftAll.
Import ListNotations.
Definition misc_tie_ok (c : lcase) : bool :=
  match misc_of (lc_mnemo c), lc_lift c with
  | Some k, Some l => match mirror_misc k (lc_o16 c) (lc_next c) (lc_args c) with Some m => list_expr_eqb l m | None => true end
  | _, _ => true
  end.
Lemma misc_forms_are_mirrors : forallb (forallb misc_tie_ok) shards = true.
Proof. vm_compute. reflexivity. Qed.
Lemma misc_forms_lifted : forall sh c k l m, In sh shards -> In c sh -> misc_of (lc_mnemo c) = Some k -> lc_lift c = Some l ->
  mirror_misc k (lc_o16 c) (lc_next c) (lc_args c) = Some m -> forall rho mu iota, map (eval rho mu iota) l = map (eval rho mu iota) m.
Proof.
  intros sh c k l m Hs Hc Hk Hl Hm. pose proof misc_forms_are_mirrors as H. rewrite forallb_forall in H. specialize (H _ Hs). rewrite forallb_forall in H.
  specialize (H _ Hc). unfold misc_tie_ok in H. rewrite Hk, Hl, Hm in H. intros rho mu iota. apply list_expr_eqb_eval. exact H.
Qed.
(** how many forms are tied (true) and how many the mirror declines (false) *)
Definition n_misc (tied : bool) : nat :=
  fold_left (fun acc sh => fold_left (fun acc c => match misc_of (lc_mnemo c), lc_lift c with
     | Some k, Some l => match mirror_misc k (lc_o16 c) (lc_next c) (lc_args c) with Some _ => if tied then S acc else acc | None => if tied then acc else S acc end
     | _, _ => acc end) sh acc) shards O.
Lemma many_misc_forms : (700 <= n_misc true)%nat /\ (n_misc false <= 8)%nat.
Proof. vm_compute. split; repeat constructor. Qed.
(** every mnemonic of the group occurs among the tied forms *)
Definition misc_eqb (a b : misc) : bool :=
  match a, b with Xadd,Xadd|Cmps,Cmps|Scas,Scas|Loop,Loop|Loope,Loope|Loopne,Loopne|Jecxz,Jecxz|Cdq,Cdq|Bt,Bt|Btc,Btc|Bts,Bts|Btr,Btr|Bswap,Bswap|Cmpxchg,Cmpxchg => true | _,_ => false end.
Definition misc_occurs (k : misc) : bool :=
  existsb (existsb (fun c => match misc_of (lc_mnemo c), lc_lift c with
     | Some k', Some l => misc_eqb k k' && match mirror_misc k' (lc_o16 c) (lc_next c) (lc_args c) with Some _ => true | None => false end | _, _ => false end)) shards.
Lemma all_misc_kinds_occur : forallb misc_occurs [Xadd; Cmps; Scas; Loop; Loope; Loopne; Jecxz; Cdq; Bt; Btc; Bts; Btr; Bswap; Cmpxchg] = true.
Proof. vm_compute. reflexivity. Qed.
