(** SemFlagMoveFacts.v — reflection obligation: every lahf / sahf form of the regenerated dump is the mirror of SemFlagMove.v. *)
From Coq Require Import ZArith List Bool String.
From Mx Require Import Expr Wf Sem SemProofs SemFlagMove.
From MxGen Require Import LiftAll.
Import ListNotations.
Definition fm_tie_ok (c : lcase) : bool :=
  match flagmove_mirror (lc_mnemo c), lc_lift c with
  | Some m, Some l => list_expr_eqb l m
  | _, _ => true
  end.
Lemma flagmove_forms_are_mirrors : forallb (forallb fm_tie_ok) shards = true.
Proof. vm_compute. reflexivity. Qed.
Lemma flagmove_forms_lifted : forall sh c m l, In sh shards -> In c sh -> flagmove_mirror (lc_mnemo c) = Some m -> lc_lift c = Some l ->
  forall rho mu iota, map (eval rho mu iota) l = map (eval rho mu iota) m.
Proof.
  intros sh c m l Hs Hc Hk Hl. pose proof flagmove_forms_are_mirrors as H. rewrite forallb_forall in H. specialize (H _ Hs). rewrite forallb_forall in H.
  specialize (H _ Hc). unfold fm_tie_ok in H. rewrite Hk, Hl in H. intros rho mu iota. apply list_expr_eqb_eval. exact H.
Qed.
Definition n_fm : nat :=
  fold_left (fun acc sh => fold_left (fun acc c => match flagmove_mirror (lc_mnemo c), lc_lift c with Some _, Some _ => S acc | _, _ => acc end) sh acc) shards O.
Lemma some_flagmove_forms : (4 <= n_fm)%nat.
Proof. vm_compute. repeat constructor. Qed.
