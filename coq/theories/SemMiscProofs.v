(** SemMiscProofs.v — what the mirror of SemMisc.v means, for all operand expressions and all states. *)
From Coq Require Import ZArith List Bool String Lia.
From Mx Require Import Expr ExprProofs Sem SemProofs SemStr SemStrProofs SemCtl SemMisc.
Import ListNotations.
Open Scope Z_scope.

(** the shapes, spelled out *)
Lemma xadd_shape o nx a b : mirror_misc Xadd o nx [a; b] =
  let c := alu_val Add b a in
  Some (upd_znp c ++ [upd_af c; EAff (flag "cf") (add_cf_src b a c); EAff (flag "of") (add_of_src b a c); mk_aff b a; mk_aff a c]).
Proof. reflexivity. Qed.
Lemma cmps_shape o nx pa w sa pb sb : mirror_misc Cmps o nx [EMem pa w sa; EMem pb w sb] =
  Some (mirror Cmp (EMem pb w sb) (EMem pa w sa) ++ [mk_aff pa (ptr_next pa (w / 8)); mk_aff pb (ptr_next2 pa pb (w / 8))]).
Proof. reflexivity. Qed.
Lemma scas_shape o nx pa w sa : mirror_misc Scas o nx [EMem pa w sa] =
  Some (mirror Cmp (ESlice eax 0 w) (EMem pa w sa) ++ [mk_aff pa (ptr_next pa (w / 8))]).
Proof. reflexivity. Qed.
Lemma ptr_next2_same p q off : size p = size q -> ptr_next2 p q off = ptr_next q off.
Proof. intros E. unfold ptr_next2, ptr_next, int_from. rewrite E. reflexivity. Qed.

Section Meaning.
  Variable rho : string -> Z.
  Variable mu : Z -> Z.
  Variable iota : string -> list Z -> Z.
  Notation ev := (eval rho mu iota).

  (** xadd: the sum and its flags are those of add with the operands exchanged; the source register receives the old destination *)
  Theorem xadd_value a b : operand_ok a = true -> operand_ok b = true -> size a = size b ->
    let n := size a in let x := ev a in let y := ev b in let c := alu_val Add b a in
    ev c = (x + y) mod 2 ^ n /\
    ev (add_cf_src b a c) = Z.b2z (cf_add n y x 0) /\ ev (add_of_src b a c) = Z.b2z (of_add n y x 0).
  Proof.
    intros Oa Ob S n x y c. pose proof (add_flags rho mu iota b a Ob Oa (eq_sym S) Add 0 (or_introl (conj eq_refl eq_refl))) as H. cbv zeta in H.
    fold c in H. rewrite <- S in H. fold n x y in H. destruct H as (V & C & O). repeat split; [|exact C|exact O]. rewrite V. f_equal. lia.
  Qed.

  (** the loop family: ecx is decremented modulo 2^32; the branch is taken while the new count is non-zero (and zf agrees) *)
  Definition new_count : Z := (rho "ecx" - 1) mod 2 ^ 32.
  Lemma ecx_dec_value : ev ecx_dec = new_count.
  Proof.
    unfold ecx_dec. rewrite (ev_sub rho mu iota ecx) by (cbn; lia). cbn [size ecx eval]. unfold wrap, new_count.
    rewrite (Z.mod_small 1 (2 ^ 32)) by (change (2 ^ 32) with 4294967296; lia). rewrite Zminus_mod_idemp_l. reflexivity.
  Qed.
  Theorem loop_eip b nx : ev (ECond ecx_dec b nx) = if new_count =? 0 then ev nx else ev b.
  Proof. cbn [eval]. fold ecx_dec. rewrite ecx_dec_value. reflexivity. Qed.
  Lemma zf_value : ev zf = if Z.odd (rho "zf") then 1 else 0.
  Proof. unfold zf, flag. cbn [eval]. unfold wrap. change (2 ^ 1) with 2. apply Zmod_odd. Qed.
  Lemma is_zero_value : ev (is_zero ecx_dec) = if new_count =? 0 then 1 else 0.
  Proof. unfold is_zero. cbn [eval]. fold ecx_dec. rewrite ecx_dec_value. destruct (new_count =? 0); reflexivity. Qed.
  Theorem loopne_eip b nx : ev (ECond loopne_exit nx b) = if (new_count =? 0) || Z.odd (rho "zf") then ev nx else ev b.
  Proof.
    assert (E : ev loopne_exit = if (new_count =? 0) || Z.odd (rho "zf") then 1 else 0).
    { unfold loopne_exit. rewrite (ev_or rho mu iota) by (cbn; lia). rewrite is_zero_value.
      change (ev (ECond zf (int_from ecx_dec 1) (int_from ecx_dec 0))) with (if ev zf =? 0 then ev (int_from ecx_dec 0) else ev (int_from ecx_dec 1)).
      rewrite zf_value. destruct (new_count =? 0), (Z.odd (rho "zf")); reflexivity. }
    change (ev (ECond loopne_exit nx b)) with (if ev loopne_exit =? 0 then ev b else ev nx). rewrite E.
    destruct ((new_count =? 0) || Z.odd (rho "zf")); reflexivity.
  Qed.
  Theorem loope_eip b nx : ev (ECond loope_exit nx b) = if (new_count =? 0) || negb (Z.odd (rho "zf")) then ev nx else ev b.
  Proof.
    assert (E : ev loope_exit = if (new_count =? 0) || negb (Z.odd (rho "zf")) then 1 else 0).
    { unfold loope_exit. rewrite (ev_or rho mu iota) by (cbn; lia). rewrite is_zero_value.
      change (ev (ECond zf (int_from ecx_dec 0) (int_from ecx_dec 1))) with (if ev zf =? 0 then ev (int_from ecx_dec 1) else ev (int_from ecx_dec 0)).
      rewrite zf_value. destruct (new_count =? 0), (Z.odd (rho "zf")); reflexivity. }
    change (ev (ECond loope_exit nx b)) with (if ev loope_exit =? 0 then ev b else ev nx). rewrite E.
    destruct ((new_count =? 0) || negb (Z.odd (rho "zf"))); reflexivity.
  Qed.
  Theorem jecxz_eip b nx : ev (ECond ecx nx b) = if rho "ecx" mod 2 ^ 32 =? 0 then ev b else ev nx.
  Proof. reflexivity. Qed.

  (** cdq / cwd: the upper half is the sign of the accumulator, so that upper:lower is its sign extension to twice the width *)
  Theorem sign_fill_value a : operand_ok a = true ->
    let n := size a in let x := ev a in
    ev (sign_fill a) = (if Z.testbit x (n - 1) then 2 ^ n - 1 else 0) /\
    x + 2 ^ n * ev (sign_fill a) = sgnv n x mod 2 ^ (2 * n).
  Proof.
    intros Oa n x. destruct (operand_range rho mu iota a Oa) as [Pn Rx]. fold n x in Pn, Rx.
    assert (P : 0 < 2 ^ n) by (apply Z.pow_pos_nonneg; lia).
    assert (E : ev (sign_fill a) = if Z.testbit x (n - 1) then 2 ^ n - 1 else 0).
    { unfold sign_fill. change (ev (ECond (msb a) (int_from a (2 ^ size a - 1)) (int_from a 0)))
        with (if ev (msb a) =? 0 then ev (int_from a 0) else ev (int_from a (2 ^ size a - 1))).
      rewrite (ev_msb rho mu iota) by exact Pn. fold n x. unfold int_from. cbn [eval]. fold n.
      destruct (Z.testbit x (n - 1)); cbn [Z.b2z Z.eqb]; unfold wrap; [apply Z.mod_small; lia | apply Z.mod_0_l; lia]. }
    split; [exact E|]. rewrite E. rewrite (msb_ge n x Pn Rx). unfold sgnv.
    assert (P2 : 2 ^ (2 * n) = 2 ^ n * 2 ^ n) by (rewrite <- Z.pow_add_r by lia; f_equal; lia).
    destruct (pow_split n Pn) as [E2 Q]. destruct (2 ^ (n - 1) <=? x) eqn:T.
    - apply (Z.mod_unique_pos _ _ (-1)); [nia | nia].
    - rewrite Z.mod_small by nia. lia.
  Qed.

  (** cmpxchg: the comparison of the destination with the accumulator *)
  Theorem cmpxchg_cond a c : operand_ok a = true -> operand_ok c = true -> size a = size c ->
    (ev (EOp "+" [a; EOp "-" [c]]) =? 0) = (ev a =? ev c).
  Proof.
    intros Oa Oc S. destruct (operand_range rho mu iota a Oa) as [Pa Ra]. destruct (operand_range rho mu iota c Oc) as [Pc Rc].
    rewrite (ev_add rho mu iota a) by lia.
    assert (N : ev (EOp "-" [c]) = wrap (size c) (- ev c)).
    { rewrite eval_op_node. cbn [map]. cbn [size]. replace (if size c =? 0 then size c else size c) with (size c) by (destruct (size c =? 0); reflexivity). reflexivity. }
    rewrite N, <- S. unfold wrap. rewrite Zplus_mod_idemp_r. rewrite <- S in Rc. set (n := size a) in *.
    assert (P : 0 < 2 ^ n) by (apply Z.pow_pos_nonneg; lia).
    destruct (Z.eqb_spec (ev a) (ev c)) as [Q|Q].
    - rewrite Q. replace (ev c + - ev c) with 0 by lia. rewrite Z.mod_0_l by lia. reflexivity.
    - apply Z.eqb_neq. destruct (Z_lt_le_dec (ev a) (ev c)) as [L|L].
      + rewrite <- (Z.mod_unique_pos (ev a + - ev c) (2 ^ n) (-1) (ev a - ev c + 2 ^ n)); lia.
      + rewrite Z.mod_small; lia.
  Qed.

  (** bit tests on a register operand: the bit index is the second operand modulo the width *)
  Section BitTest.
    Variables a b : expr.
    Hypothesis Oa : operand_ok a = true.
    Hypothesis Ob : operand_ok b = true.
    Hypothesis Reg : bit_cell a b = a.                       (* the destination is a register, not a memory cell *)
    Variable k : Z.
    Hypothesis Hk : 0 <= k.
    Hypothesis Sa : size a = 2 ^ k.                          (* 16 = 2^4 or 32 = 2^5 *)
    Hypothesis Sb : size a <= 2 ^ size b.                    (* the index fits the second operand (8-bit immediates included) *)
    Let n := size a.
    Let x := ev a.
    Definition bit_no : Z := ev b mod n.
    Let Pa := proj1 (operand_range rho mu iota a Oa).
    Let Ra := proj2 (operand_range rho mu iota a Oa).

    Lemma bit_no_range : 0 <= bit_no < n.
    Proof. unfold bit_no. apply Z.mod_pos_bound. exact Pa. Qed.
    Lemma one_lt : 1 < 2 ^ n.
    Proof. fold n in Pa. change 1 with (2 ^ 0). apply Z.pow_lt_mono_r; lia. Qed.
    Lemma bit_index_value : ev (bit_index a b) = bit_no.
    Proof.
      destruct (operand_range rho mu iota b Ob) as [Pb Rb]. pose proof bit_no_range as R. pose proof one_lt as L1. unfold bit_index. fold (e_and b (int_from a (size a - 1))).
      rewrite (ev_and rho mu iota) by lia. unfold int_from. cbn [eval]. fold n. fold n in Sa, Sb, Pa.
      assert (W : wrap n (n - 1) = n - 1) by (apply Z.mod_small; split; [lia|]; apply Z.lt_trans with n; [lia | apply Z.pow_gt_lin_r; lia]).
      rewrite W. replace (n - 1) with (Z.ones k) by (rewrite Z.ones_equiv; lia). rewrite Z.land_ones by exact Hk. rewrite <- Sa. fold bit_no.
      apply Z.mod_small. lia.
    Qed.
    Lemma shr_cell : ev (EOp ">>" [a; bit_index a b]) = Z.shiftr x bit_no.
    Proof.
      pose proof bit_no_range as R. rewrite eval_op_node, size_op2 by lia. cbn [map]. rewrite bit_index_value. unfold eval_op. change (opk_of ">>") with OShr.
      fold n x. fold n x in Ra. replace (wrap n x) with x by (symmetry; apply Z.mod_small; exact Ra). rewrite Z.min_l by lia.
      apply Z.mod_small. rewrite Z.shiftr_div_pow2 by lia. assert (P1 : 0 < 2 ^ bit_no) by (apply Z.pow_pos_nonneg; lia).
      split; [apply Z.div_pos; lia|]. apply Z.le_lt_trans with x; [|lia]. apply Z.div_le_upper_bound; [exact P1|]. nia.
    Qed.
    (** bt / btc / bts / btr: cf receives the selected bit *)
    Theorem bit_cf_value : ev (EOp "&" [EOp ">>" [bit_cell a b; bit_index a b]; int_from a 1]) = Z.b2z (Z.testbit x bit_no).
    Proof.
      pose proof bit_no_range as R. pose proof one_lt as L1. rewrite Reg. fold (e_and (EOp ">>" [a; bit_index a b]) (int_from a 1)).
      assert (Sz : size (EOp ">>" [a; bit_index a b]) = n) by (apply size_op2; lia).
      rewrite (ev_and rho mu iota) by lia. rewrite Sz, shr_cell. unfold int_from. cbn [eval]. fold n.
      assert (W1 : wrap n 1 = 1) by (apply Z.mod_small; lia). rewrite W1.
      replace (Z.land (Z.shiftr x bit_no) 1) with (Z.land (Z.shiftr x bit_no) (Z.ones 1)) by reflexivity. rewrite Z.land_ones by lia. change (2 ^ 1) with 2.
      rewrite <- Z.bit0_mod. rewrite Z.shiftr_spec by lia. replace (0 + bit_no) with bit_no by lia.
      apply Z.mod_small. destruct (Z.testbit x bit_no); cbn; lia.
    Qed.
    Lemma bit_mask_value : ev (bit_mask a b) = 2 ^ bit_no /\ size (bit_mask a b) = n.
    Proof.
      pose proof bit_no_range as R. pose proof one_lt as L1. assert (Si : size (int_from a 1) = n) by reflexivity. split; [|unfold bit_mask; rewrite size_op2 by lia; exact Si].
      unfold bit_mask. rewrite eval_op_node, size_op2 by lia. cbn [map]. rewrite bit_index_value, Si. unfold eval_op. change (opk_of "<<") with OShl.
      rewrite Z.min_l by lia. unfold int_from. cbn [eval]. fold n. unfold wrap. rewrite (Z.mod_small 1) by lia. rewrite Z.shiftl_1_l. apply Z.mod_small.
      split; [apply Z.pow_nonneg; lia | apply Z.pow_lt_mono_r; lia].
    Qed.
    Lemma testbit_not e i : 0 <= i < size e -> Z.testbit (ev (e_not e)) i = negb (Z.testbit (ev e) i).
    Proof.
      intros H. unfold e_not. fold (e_xor e (int_from e (2 ^ size e - 1))). rewrite (ev_xor rho mu iota) by lia.
      rewrite (testbit_wrap (size e)) by lia. rewrite Z.lxor_spec. unfold int_from. cbn [eval].
      replace (2 ^ size e - 1) with (Z.ones (size e)) by (rewrite Z.ones_equiv; lia).
      rewrite (testbit_wrap (size e)) by lia. rewrite Z.ones_spec_low by lia. apply xorb_true_r.
    Qed.
    (** bts sets, btr clears, btc complements the selected bit and leaves the others *)
    Theorem bts_bits i : 0 <= i < n -> Z.testbit (ev (EOp "|" [bit_cell a b; bit_mask a b])) i = if i =? bit_no then true else Z.testbit x i.
    Proof.
      intros Hi. pose proof bit_no_range as R. destruct bit_mask_value as [Mv Ms]. rewrite Reg. rewrite (ev_or rho mu iota) by lia. fold n.
      rewrite (testbit_wrap n) by lia. rewrite Z.lor_spec, Mv. fold x. rewrite Z.pow2_bits_eqb by lia. rewrite (Z.eqb_sym bit_no i).
      destruct (i =? bit_no); [apply orb_true_r | apply orb_false_r].
    Qed.
    Theorem btc_bits i : 0 <= i < n -> Z.testbit (ev (EOp "^" [bit_cell a b; bit_mask a b])) i = if i =? bit_no then negb (Z.testbit x i) else Z.testbit x i.
    Proof.
      intros Hi. pose proof bit_no_range as R. destruct bit_mask_value as [Mv Ms]. rewrite Reg. fold (e_xor a (bit_mask a b)). rewrite (ev_xor rho mu iota) by lia. fold n.
      rewrite (testbit_wrap n) by lia. rewrite Z.lxor_spec, Mv. fold x. rewrite Z.pow2_bits_eqb by lia. rewrite (Z.eqb_sym bit_no i).
      destruct (i =? bit_no); [apply xorb_true_r | apply xorb_false_r].
    Qed.
    Theorem btr_bits i : 0 <= i < n -> Z.testbit (ev (EOp "&" [bit_cell a b; e_not (bit_mask a b)])) i = if i =? bit_no then false else Z.testbit x i.
    Proof.
      intros Hi. pose proof bit_no_range as R. destruct bit_mask_value as [Mv Ms]. rewrite Reg. fold (e_and a (e_not (bit_mask a b))). rewrite (ev_and rho mu iota) by lia. fold n.
      rewrite (testbit_wrap n) by lia. rewrite Z.land_spec. rewrite testbit_not by (rewrite Ms; exact Hi). rewrite Mv. fold x. rewrite Z.pow2_bits_eqb by lia. rewrite (Z.eqb_sym bit_no i).
      destruct (i =? bit_no); [apply andb_false_r | apply andb_true_r].
    Qed.
  End BitTest.

  (** bswap: byte j of the result is byte 3 - j of the operand *)
  Section Bswap.
    Variable a : expr.
    Hypothesis Oa : operand_ok a = true.
    Hypothesis Sa : size a = 32.
    Let x := ev a.
    Definition byte_slot (sh : Z) : expr := EOp ">>" [EOp "&" [int_from a (Z.shiftl 255 sh); a]; EInt false 32 sh].
    Lemma and_bits M t : 0 <= M < 2 ^ 32 -> 0 <= t < 32 -> Z.testbit (ev (EOp "&" [int_from a M; a])) t = Z.testbit M t && Z.testbit x t.
    Proof.
      intros HM Ht. fold (e_and (int_from a M) a). assert (Si : size (int_from a M) = 32) by exact Sa. rewrite (ev_and rho mu iota) by lia. rewrite Si.
      rewrite (testbit_wrap 32) by lia. rewrite Z.land_spec. unfold int_from. cbn [eval]. rewrite Sa. unfold wrap at 1. rewrite (Z.mod_small M) by lia. reflexivity.
    Qed.
    Lemma byte_mask_bits sh t : 0 <= sh -> 0 <= t -> Z.testbit (Z.shiftl 255 sh) t = (sh <=? t) && (t <? sh + 8).
    Proof.
      intros Hs Ht. rewrite Z.shiftl_spec by lia. destruct (Z.leb_spec sh t) as [L|L]; [|rewrite Z.testbit_neg_r by lia; reflexivity].
      change 255 with (Z.ones 8). destruct (Z.ltb_spec t (sh + 8)) as [M|M]; [apply Z.ones_spec_low; lia | apply Z.ones_spec_high; lia].
    Qed.
    Lemma byte_mask_range sh : 0 <= sh -> sh + 8 <= 32 -> 0 <= Z.shiftl 255 sh < 2 ^ 32.
    Proof.
      intros H0 H1. rewrite Z.shiftl_mul_pow2 by lia. assert (P : 0 < 2 ^ sh) by (apply Z.pow_pos_nonneg; lia). split; [lia|].
      apply Z.lt_le_trans with (2 ^ 8 * 2 ^ sh); [change (2 ^ 8) with 256; lia|]. rewrite <- Z.pow_add_r by lia. apply Z.pow_le_mono_r; lia.
    Qed.
    Lemma byte_slot_bits sh t : 0 <= sh -> sh + 8 <= 32 -> 0 <= t < 8 -> Z.testbit (ev (byte_slot sh)) t = Z.testbit x (t + sh).
    Proof.
      intros H0 H1 Ht. unfold byte_slot. assert (Sz : size (EOp "&" [int_from a (Z.shiftl 255 sh); a]) = 32) by (rewrite size_op2; [exact Sa | change (size (int_from a (Z.shiftl 255 sh))) with (size a); lia]).
      rewrite eval_op_node, size_op2 by lia. rewrite Sz. cbn [map]. unfold eval_op. change (opk_of ">>") with OShr. change (ev (EInt false 32 sh)) with (sh mod 2 ^ 32). rewrite (Z.mod_small sh) by (change (2 ^ 32) with 4294967296; lia).
      rewrite Z.min_l by lia. rewrite (testbit_wrap 32) by lia. rewrite Z.shiftr_spec by lia. rewrite (testbit_wrap 32) by lia.
      rewrite and_bits by (try apply byte_mask_range; lia). rewrite byte_mask_bits by lia.
      replace (sh <=? t + sh) with true by (symmetry; apply Z.leb_le; lia). replace (t + sh <? sh + 8) with true by (symmetry; apply Z.ltb_lt; lia). reflexivity.
    Qed.
    Lemma low_slot_bits t : 0 <= t < 8 -> Z.testbit (ev (EOp "&" [int_from a 255; a])) t = Z.testbit x t.
    Proof. intros Ht. rewrite and_bits by (change (2 ^ 32) with 4294967296; lia). change 255 with (Z.ones 8). rewrite Z.ones_spec_low by lia. reflexivity. Qed.
    Lemma wrap8_bits v t : Z.testbit (wrap 8 v) t = if (0 <=? t) && (t <? 8) then Z.testbit v t else false.
    Proof.
      destruct (Z.leb_spec 0 t) as [L|L]; [|apply Z.testbit_neg_r; lia]. destruct (Z.ltb_spec t 8) as [M|M]; cbn [andb].
      - apply testbit_wrap. lia.
      - unfold wrap. apply Z.mod_pow2_bits_high. lia.
    Qed.
    Theorem bswap_bytes j m : 0 <= j < 4 -> 0 <= m < 8 -> Z.testbit (ev (bswap_val a)) (8 * j + m) = Z.testbit x (8 * (3 - j) + m).
    Proof.
      intros Hj Hm. unfold bswap_val. change 65280 with (Z.shiftl 255 8). change 16711680 with (Z.shiftl 255 16). change 4278190080 with (Z.shiftl 255 24).
      fold (byte_slot 8) (byte_slot 16) (byte_slot 24). rewrite eval_compose. cbn [map fold_left]. unfold slot_val, slot_hi, slot_lo, slot_e. cbn [fst snd].
      rewrite !Z.lor_spec. rewrite !Z.shiftl_spec by lia. rewrite Z.bits_0. cbn [orb]. rewrite !wrap8_bits.
      assert (J : j = 0 \/ j = 1 \/ j = 2 \/ j = 3) by lia. destruct J as [-> | [-> | [-> | ->]]].
      - replace (0 <=? 8 * 0 + m - 24) with false by (symmetry; apply Z.leb_gt; lia). replace (0 <=? 8 * 0 + m - 16) with false by (symmetry; apply Z.leb_gt; lia).
        replace (0 <=? 8 * 0 + m - 8) with false by (symmetry; apply Z.leb_gt; lia). cbn [andb orb].
        replace (8 * 0 + m - 0) with m by lia. replace (0 <=? m) with true by (symmetry; apply Z.leb_le; lia). replace (m <? 8) with true by (symmetry; apply Z.ltb_lt; lia). cbn [andb].
        rewrite byte_slot_bits by lia. f_equal; lia.
      - replace (0 <=? 8 * 1 + m - 24) with false by (symmetry; apply Z.leb_gt; lia). replace (0 <=? 8 * 1 + m - 16) with false by (symmetry; apply Z.leb_gt; lia).
        replace (8 * 1 + m - 0 <? 8) with false by (symmetry; apply Z.ltb_ge; lia). rewrite andb_false_r. cbn [andb orb]. rewrite orb_false_r.
        replace (8 * 1 + m - 8) with m by lia. replace (0 <=? m) with true by (symmetry; apply Z.leb_le; lia). replace (m <? 8) with true by (symmetry; apply Z.ltb_lt; lia). cbn [andb].
        rewrite byte_slot_bits by lia. f_equal; lia.
      - replace (0 <=? 8 * 2 + m - 24) with false by (symmetry; apply Z.leb_gt; lia).
        replace (8 * 2 + m - 0 <? 8) with false by (symmetry; apply Z.ltb_ge; lia). replace (8 * 2 + m - 8 <? 8) with false by (symmetry; apply Z.ltb_ge; lia). rewrite !andb_false_r. cbn [andb orb]. rewrite !orb_false_r.
        replace (8 * 2 + m - 16) with m by lia. replace (0 <=? m) with true by (symmetry; apply Z.leb_le; lia). replace (m <? 8) with true by (symmetry; apply Z.ltb_lt; lia). cbn [andb].
        rewrite byte_slot_bits by lia. f_equal; lia.
      - replace (8 * 3 + m - 0 <? 8) with false by (symmetry; apply Z.ltb_ge; lia). replace (8 * 3 + m - 8 <? 8) with false by (symmetry; apply Z.ltb_ge; lia).
        replace (8 * 3 + m - 16 <? 8) with false by (symmetry; apply Z.ltb_ge; lia). rewrite !andb_false_r. rewrite !orb_false_r.
        replace (8 * 3 + m - 24) with m by lia. replace (0 <=? m) with true by (symmetry; apply Z.leb_le; lia). replace (m <? 8) with true by (symmetry; apply Z.ltb_lt; lia). cbn [andb].
        rewrite low_slot_bits by lia. f_equal; lia.
    Qed.
  End Bswap.
End Meaning.
