(** SemCtlFacts.v — reflection obligation: every near call / ret / leave / jmp form with 32-bit operand size of the lifted dump regenerated
    from /repo is, node for node, the mirror SemCtl.mirror_ctl of its dumped operands and next-instruction address. *)
From Coq Require Import ZArith List Bool String.
From Mx Require Import Expr Wf Sem SemProofs SemMov SemCtl.
From MxGen Require Import LiftAll.
Import ListNotations.
Definition ctl_tie_ok (c : lcase) : bool :=
  match ctl_of (lc_mnemo c), lc_lift c with
  | Some k, Some l => match mirror_ctl k (lc_o16 c) (lc_next c) (lc_args c) with Some m => list_expr_eqb l m | None => true end
  | _, _ => true
  end.
Lemma ctl_forms_are_mirrors : forallb (forallb ctl_tie_ok) shards = true.
Proof. vm_compute. reflexivity. Qed.
Lemma ctl_forms_lifted : forall sh c k l, In sh shards -> In c sh -> ctl_of (lc_mnemo c) = Some k -> lc_lift c = Some l ->
  mirror_ctl k (lc_o16 c) (lc_next c) (lc_args c) = None \/
  exists m, mirror_ctl k (lc_o16 c) (lc_next c) (lc_args c) = Some m /\ forall rho mu iota, map (eval rho mu iota) l = map (eval rho mu iota) m.
Proof.
  intros sh c k l Hs Hc Hk Hl. pose proof ctl_forms_are_mirrors as H. rewrite forallb_forall in H. specialize (H _ Hs). rewrite forallb_forall in H.
  specialize (H _ Hc). unfold ctl_tie_ok in H. rewrite Hk, Hl in H. destruct (mirror_ctl k (lc_o16 c) (lc_next c) (lc_args c)) as [m|]; [right | left; reflexivity].
  exists m. split; [reflexivity|]. intros rho mu iota. apply list_expr_eqb_eval. exact H.
Qed.
Definition n_ctl : nat :=
  fold_left (fun acc sh => fold_left (fun acc c => match ctl_of (lc_mnemo c), lc_lift c with Some k, Some l => match mirror_ctl k (lc_o16 c) (lc_next c) (lc_args c) with Some _ => S acc | None => acc end | _, _ => acc end) sh acc) shards O.
Lemma many_ctl_forms : (40 <= n_ctl)%nat.
Proof. vm_compute. repeat constructor. Qed.
