(** SemShiftFlags.v — the WHOLE assignment lists of the shift / rotate group of the x86 lifter (miasmx/arch/ia32_sem.py: shl = sal, shr, sar,
    l_rol, l_ror, rcl, rcr), flags included, as Gallina functions of the operand expressions the lifter was called with.
    SemShift.v mirrors the destination value only; this file adds the flag assignments as they are written (several of them are known
    findings with respect to the processor: see DESIGN.md).  No proofs in this file. *)
From Coq Require Import ZArith List Bool String.
From Mx Require Import Expr Sem SemShift.
Import ListNotations.
Open Scope string_scope.
Open Scope list_scope.
Open Scope Z_scope.

Inductive shf := FSal | FShr | FSar | FRol | FRor | FRcl | FRcr.
Definition shf_of (mn : string) : option shf :=
  let is x := (mn =? x)%string in
  if is "sal" || is "shl" then Some FSal else if is "shr" then Some FShr else if is "sar" then Some FSar
  else if is "rol" then Some FRol else if is "ror" then Some FRor else if is "rcl" then Some FRcl else if is "rcr" then Some FRcr else None.
Definition cf : expr := flag "cf".
(** the last bit shifted out *)
Definition shl_cf (a b : expr) : expr := ESlice (EOp ">>" [a; EOp "-" [int_from b (size a); masked_count b]]) 0 1.
Definition shr_cf (op : string) (a b : expr) : expr := EOp "&" [int_from a 1; EOp op [a; EOp "-" [masked_count b; int_from b 1]]].
Definition keep_if_zero (b new_cf : expr) : expr := ECond (masked_count b) new_cf cf.
Definition mirror_shf (k : shf) (a b : expr) : list expr :=
  match k with
  | FSal => let c := shift_val Sal a b in
            [EAff cf (keep_if_zero b (shl_cf a b))] ++ upd_znp c ++ [EAff (flag "of") (e_xor (msb c) (shl_cf a b)); mk_aff a c]
  | FShr => let c := shift_val Shr a b in
            [EAff cf (keep_if_zero b (shr_cf ">>" a b)); EAff (flag "of") (msb a)] ++ upd_znp c ++ [mk_aff a c]
  | FSar => let c := shift_val Sar a b in
            [EAff cf (keep_if_zero b (shr_cf "a>>" a b)); EAff (flag "of") (int_from a 0)] ++ upd_znp c ++ [mk_aff a c]
  | FRol => let c := shift_val Rol a b in let ncf := EOp "&" [c; int_from a 1] in
            [EAff cf ncf; EAff (flag "of") (e_xor (msb c) ncf); mk_aff a c]
  | FRor => let c := shift_val Ror a b in [EAff cf (msb c); EAff (flag "of") (e_xor (msb c) (msb a)); mk_aff a c]
  | FRcl => let c := EOp "<<<c_rez" [a; b; cf] in let ncf := EOp "<<<c_cf" [a; b; cf] in
            [EAff cf ncf; EAff (flag "of") (e_xor (msb c) ncf); mk_aff a c]
  | FRcr => let c := EOp ">>>c_rez" [a; b; cf] in let ncf := EOp ">>>c_cf" [a; b; cf] in
            [EAff cf ncf; EAff (flag "of") (e_xor (msb a) (msb c)); mk_aff a c]
  end.
Definition is_shf_mirror (k : shf) (args l : list expr) : bool :=
  match args with
  | [a; b] => operand_ok a && operand_ok b && ((size a =? 8) || (size a =? 16) || (size a =? 32)) && list_expr_eqb l (mirror_shf k a b)
  | _ => false
  end.
