(** LiftFacts.v — reflection obligation over the lifted semantics regenerated from /repo (MxGen.LiftAll). *)
From Coq Require Import ZArith List Bool String.
From Mx Require Import Expr Wf LiftKnown.
From MxGen Require Import LiftAll.
Import ListNotations.
Lemma all_lifted_wf_except : forallb (all_ok lift_known) shards = true.
Proof. vm_compute. reflexivity. Qed.
