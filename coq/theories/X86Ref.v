(** X86Ref.v — the ModRM / SIB addressing forms of the Intel SDM (vol. 2, tables 2-1, 2-2, 2-3) as formulas,
    written independently of miasmx, and the comparison with a dumped table entry. *)
From Coq Require Import ZArith List Bool String.
From Mx Require Import X86Types.
Import ListNotations.
Open Scope Z_scope.

Definition f_mod (b : Z) := Z.land (Z.shiftr b 6) 3.
Definition f_reg (b : Z) := Z.land (Z.shiftr b 3) 7.
Definition f_rm (b : Z) := Z.land b 7.

(** an effective-address form: register coefficients (sorted by register number), displacement kind
    (None, Some 1 = disp8 sign-extended, Some 4 = disp32, Some 2 = disp16), memory? *)
Definition add_reg (r c : Z) (l : list (Z * Z)) : list (Z * Z) :=
  (fix go (l : list (Z * Z)) : list (Z * Z) :=
     match l with
     | [] => [(r, c)]
     | (r', c') :: t => if r =? r' then (r', c + c') :: t else if r <? r' then (r, c) :: l else (r', c') :: go t
     end) l.

Definition sdm_modrm32 (modrm sib : Z) : bool * option Z * list (Z * Z) :=
  let md := f_mod modrm in let rm := f_rm modrm in
  if md =? 3 then (false, None, [(rm, 1)]) else
  let disp := if md =? 1 then Some 1 else if md =? 2 then Some 4 else None in
  if rm =? 4 then
    let ss := f_mod sib in let idx := f_reg sib in let base := f_rm sib in
    let regs0 := if (base =? 5) && (md =? 0) then [] else [(base, 1)] in
    let regs := if idx =? 4 then regs0 else add_reg idx (2 ^ ss) regs0 in
    let disp' := if (base =? 5) && (md =? 0) then Some 4 else disp in
    (true, disp', regs)
  else if (rm =? 5) && (md =? 0) then (true, Some 4, [])
  else (true, disp, [(rm, 1)]).

(* 16-bit addressing: bx=3 bp=5 si=6 di=7 *)
Definition sdm_modrm16 (modrm : Z) : bool * option Z * list (Z * Z) :=
  let md := f_mod modrm in let rm := f_rm modrm in
  if md =? 3 then (false, None, [(rm, 1)]) else
  let disp := if md =? 1 then Some 1 else if md =? 2 then Some 2 else None in
  let regs := match rm with
              | 0 => [(3, 1); (6, 1)] | 1 => [(3, 1); (7, 1)] | 2 => [(5, 1); (6, 1)] | 3 => [(5, 1); (7, 1)]
              | 4 => [(6, 1)] | 5 => [(7, 1)] | 6 => [(5, 1)] | _ => [(3, 1)] end in
  if (rm =? 6) && (md =? 0) then (true, Some 2, []) else (true, disp, regs).

(** table immediate kinds: 0 u08, 1 s08, 2 u16, 4 u32  ->  displacement kinds 1 (disp8, signed), 2, 4 *)
Definition disp_of_immk (k : option Z) : option Z :=
  match k with None => None | Some 1 => Some 1 | Some 2 => Some 2 | Some 4 => Some 4 | Some _ => Some 99 end.

Definition pairs_eqb (a b : list (Z * Z)) : bool :=
  (Nat.eqb (List.length a) (List.length b)) && forallb (fun p => (fst (fst p) =? fst (snd p)) && (snd (fst p) =? snd (snd p))) (combine a b).
Definition optz_eqb (a b : option Z) : bool :=
  match a, b with None, None => true | Some x, Some y => x =? y | _, _ => false end.
Definition afs_agrees (a : afs) (spec : bool * option Z * list (Z * Z)) : bool :=
  let '(ad, disp, regs) := spec in
  Bool.eqb (af_ad a) ad && optz_eqb (disp_of_immk (af_imm a)) disp && pairs_eqb (af_regs a) regs.

Definition lookup32 (T : tables) (modrm sib : Z) : option afs :=
  match nth_error (t_db_afs T) (Z.to_nat modrm) with
  | Some (MAfs a) => Some a
  | Some (MSib k) => match nth_error (t_sib T) (Z.to_nat k) with Some st => nth_error st (Z.to_nat sib) | None => None end
  | None => None
  end.
Definition lookup16 (T : tables) (modrm : Z) : option afs :=
  match nth_error (t_db_afs_16 T) (Z.to_nat modrm) with Some (MAfs a) => Some a | _ => None end.

Definition bytes256 : list Z := map Z.of_nat (seq 0 256).
Definition modrm32_ok (T : tables) : bool :=
  forallb (fun m => forallb (fun s => match lookup32 T m s with Some a => afs_agrees a (sdm_modrm32 m s) | None => false end) bytes256) bytes256.
Definition modrm16_ok (T : tables) : bool :=
  forallb (fun m => match lookup16 T m with Some a => afs_agrees a (sdm_modrm16 m) | None => false end) bytes256.
