(** PpcFacts.v — reflection obligations over the PowerPC classes regenerated from /repo (MxGen.PpcTables). *)
From Coq Require Import ZArith List Bool String.
From Mx Require Import Ppc PpcProofs.
From MxGen Require Import PpcTables.
Import ListNotations.
Open Scope Z_scope.
Lemma classes_wf : forallb class_wf ppc_classes = true.
Proof. vm_compute. reflexivity. Qed.
Lemma classes_disjoint : all_pairs_disjoint ppc_classes = true.
Proof. vm_compute. reflexivity. Qed.
Lemma fields_tile : forallb (fun c => total_mask c =? Z.ones 32) ppc_classes = true.
Proof. vm_compute. reflexivity. Qed.
