(** SemStr.v — mirror of the string moves of the x86 lifter (miasmx/arch/ia32_sem.py: movs, stos, lods; all operand and address sizes)
    on the operand expressions the lifter was called with.  No proofs in this file. *)
From Coq Require Import ZArith List Bool String.
From Mx Require Import Expr Sem.
Import ListNotations.
Open Scope string_scope.
Open Scope list_scope.
Open Scope Z_scope.

Inductive strop := Movs | Stos | Lods.
Definition str_of (mn : string) : option strop :=
  let is x := (mn =? x)%string in
  if is "movsb" || is "movsw" || is "movsd" then Some Movs else if is "stosb" || is "stosw" || is "stosd" then Some Stos
  else if is "lodsb" || is "lodsw" || is "lodsd" then Some Lods else None.
Definition df : expr := flag "df".
Definition eax : expr := EId "eax" 32 true false.
(** the pointer register moves by the element size, down when df is set *)
Definition ptr_next (p : expr) (off : Z) : expr := ECond df (EOp "-" [p; int_from p off]) (EOp "+" [p; int_from p off]).
Definition ptr_step (p : expr) (off : Z) : expr := mk_aff p (ptr_next p off).
Definition acc (w : Z) : expr := ESlice eax 0 w.
Definition mirror_str (k : strop) (args : list expr) : option (list expr) :=
  match k, args with
  | Movs, [EMem pa w sa; EMem pb w' sb] => if w =? w' then Some [EAff (EMem pa w sa) (EMem pb w' sb); ptr_step pa (w / 8); ptr_step pb (w / 8)] else None
  | Stos, [EMem pa w sa] => Some [EAff (EMem pa w sa) (acc w); ptr_step pa (w / 8)]
  | Lods, [EMem pa w sa] => Some [mk_aff (acc w) (EMem pa w sa); ptr_step pa (w / 8)]
  | _, _ => None
  end.
