(** SemShiftProofs.v — what the destination value of the shift / rotate mirror means, for all operand expressions and all states. *)
From Coq Require Import ZArith List Bool String Lia.
From Mx Require Import Expr ExprProofs Sem SemProofs SemShift.
Import ListNotations.
Open Scope Z_scope.

Lemma is_shift_mirror_sound k args l : is_shift_mirror k args l = true ->
  exists a b x, args = [a; b] /\ last_expr l = Some x /\ operand_ok a = true /\ operand_ok b = true /\ (size a = 8 \/ size a = 16 \/ size a = 32) /\
    forall rho mu iota, eval rho mu iota x = eval rho mu iota (mk_aff a (shift_val k a b)).
Proof.
  unfold is_shift_mirror. destruct args as [|a [|b [|? ?]]]; try discriminate. destruct (last_expr l) as [x|]; try discriminate. intros H.
  apply andb_true_iff in H as [H E]. apply andb_true_iff in H as [H S]. apply andb_true_iff in H as [Oa Ob].
  exists a, b, x. repeat split; try assumption.
  - apply orb_true_iff in S as [S|S]; [apply orb_true_iff in S as [S|S]|]; apply Z.eqb_eq in S; auto.
  - intros rho mu iota. apply eval_eqb. exact E.
Qed.

Section Meaning.
  Variable rho : string -> Z.
  Variable mu : Z -> Z.
  Variable iota : string -> list Z -> Z.
  Notation ev := (eval rho mu iota).
  Variables a b : expr.
  Hypothesis Oa : operand_ok a = true.
  Hypothesis Ob : operand_ok b = true.
  Let n := size a.
  Let x := ev a.
  (** the processor masks the count to five bits *)
  Definition count : Z := ev b mod 32.

  Lemma count_value : size b = 8 \/ size b = 16 \/ size b = 32 -> ev (masked_count b) = count.
  Proof.
    intros Sb. destruct (operand_range rho mu iota b Ob) as [Pb Rb]. unfold masked_count. fold (e_and b (int_from b 31)). rewrite (ev_and rho mu iota) by lia.
    unfold int_from. cbn [eval]. assert (W : wrap (size b) 31 = 31) by (apply Z.mod_small; destruct Sb as [E8 | [E8 | E8]]; rewrite E8; lia). rewrite W.
    change 31 with (Z.ones 5). rewrite Z.land_ones by lia. unfold count. apply Z.mod_small.
    pose proof (Z.mod_pos_bound (ev b) (2 ^ 5) ltac:(lia)) as B. change (2 ^ 5) with 32 in *. split; [lia|].
    apply Z.lt_le_trans with 32; [lia|]. destruct Sb as [E8 | [E8 | E8]]; rewrite E8; lia.
  Qed.
  Lemma count_range : 0 <= count < 32.
  Proof. unfold count. apply Z.mod_pos_bound. lia. Qed.

  Hypothesis Sb : size b = 8 \/ size b = 16 \/ size b = 32.
  Let Pa := proj1 (operand_range rho mu iota a Oa).
  Let Ra := proj2 (operand_range rho mu iota a Oa).

  Theorem shl_value : ev (shift_val Sal a b) = (x * 2 ^ count) mod 2 ^ n.
  Proof.
    pose proof count_range as C. unfold shift_val. rewrite eval_op_node, size_op2 by lia. cbn [map]. rewrite (count_value Sb). unfold eval_op. change (opk_of "<<") with OShl.
    fold n x. destruct (Z_le_gt_dec count n) as [L|L].
    - rewrite Z.min_l by lia. rewrite Z.shiftl_mul_pow2 by lia. reflexivity.
    - rewrite Z.min_r by lia. rewrite Z.shiftl_mul_pow2 by lia. unfold wrap. rewrite Z.mod_mul by (apply Z.pow_nonzero; lia).
      assert (E : x * 2 ^ count = (x * 2 ^ (count - n)) * 2 ^ n) by (rewrite <- Z.mul_assoc, <- Z.pow_add_r by lia; f_equal; f_equal; lia).
      rewrite E, Z.mod_mul by (apply Z.pow_nonzero; lia). reflexivity.
  Qed.
  Theorem shr_value : ev (shift_val Shr a b) = x / 2 ^ count.
  Proof.
    pose proof count_range as C. unfold shift_val. rewrite eval_op_node, size_op2 by lia. cbn [map]. rewrite (count_value Sb). unfold eval_op. change (opk_of ">>") with OShr.
    fold n x. fold x n in Ra. replace (wrap n x) with x by (symmetry; apply Z.mod_small; exact Ra). assert (Q : Z.shiftr x (Z.min count n) = x / 2 ^ count).
    { destruct (Z_le_gt_dec count n) as [L|L]; [rewrite Z.min_l by lia; apply Z.shiftr_div_pow2; lia|]. rewrite Z.min_r by lia.
      rewrite Z.shiftr_div_pow2 by lia. rewrite Z.div_small by lia. symmetry. apply Z.div_small. split; [lia|].
      apply Z.lt_le_trans with (2 ^ n); [lia | apply Z.pow_le_mono_r; lia]. }
    rewrite Q. apply Z.mod_small. split; [apply Z.div_pos; [lia | apply Z.pow_pos_nonneg; lia]|].
    apply Z.le_lt_trans with x; [|lia]. assert (P1 : 0 < 2 ^ count) by (apply Z.pow_pos_nonneg; lia). apply Z.div_le_upper_bound; [exact P1|]. nia.
  Qed.
  Theorem sar_value : ev (shift_val Sar a b) = (sgnv n x / 2 ^ count) mod 2 ^ n.
  Proof.
    pose proof count_range as C. unfold shift_val. rewrite eval_op_node, size_op2 by lia. cbn [map]. rewrite (count_value Sb). unfold eval_op. change (opk_of "a>>") with OSar.
    fold n x. fold x n in Ra.
    assert (Sg : sgn n x = sgnv n x).
    { unfold sgn, sgnv. cbv zeta. unfold wrap. rewrite (Z.mod_small x (2 ^ n)) by lia. destruct (pow_split n Pa) as [E P].
      destruct (Z.geb_spec (2 * x) (2 ^ n)), (Z.leb_spec (2 ^ (n - 1)) x); try reflexivity; lia. }
    rewrite Sg. unfold wrap. f_equal. assert (Bd : - 2 ^ n <= sgnv n x < 2 ^ n) by (unfold sgnv; destruct (pow_split n Pa) as [E P]; destruct (2 ^ (n - 1) <=? x); lia).
    destruct (Z_le_gt_dec count n) as [L|L]; [rewrite Z.min_l by lia; apply Z.shiftr_div_pow2; lia|]. rewrite Z.min_r by lia. rewrite !Z.shiftr_div_pow2 by lia.
    assert (P2 : 2 ^ n <= 2 ^ count) by (apply Z.pow_le_mono_r; lia). assert (Pn : 0 < 2 ^ n) by (apply Z.pow_pos_nonneg; lia).
    destruct (Z_lt_le_dec (sgnv n x) 0) as [N|N].
    - rewrite <- (Z.div_unique (sgnv n x) (2 ^ n) (-1) (sgnv n x + 2 ^ n)) by lia. apply (Z.div_unique (sgnv n x) (2 ^ count) (-1) (sgnv n x + 2 ^ count)); lia.
    - rewrite !Z.div_small by lia. reflexivity.
  Qed.

  (** rotates: the result's bit i is the operand's bit (i -/+ count) modulo the width *)
  Theorem rol_bits : forall i, 0 <= i < n -> Z.testbit (ev (shift_val Rol a b)) i = Z.testbit x ((i - ev b mod n) mod n).
  Proof.
    intros i Hi. unfold shift_val. rewrite eval_op_node, size_op2 by lia. cbn [map]. unfold eval_op. change (opk_of "<<<") with ORol. fold n x.
    replace (n =? 0) with false by (symmetry; apply Z.eqb_neq; lia). fold x n in Ra. unfold rol. cbv zeta. replace (wrap n x) with x by (symmetry; apply Z.mod_small; exact Ra).
    set (r := ev b mod n). assert (Rr : 0 <= r < n) by (apply Z.mod_pos_bound; lia).
    unfold wrap. rewrite Z.mod_pow2_bits_low by lia. rewrite Z.lor_spec, Z.shiftr_spec by lia.
    destruct (Z_lt_le_dec i r) as [L|L].
    - rewrite Z.shiftl_spec_low by lia. cbn [orb]. f_equal. apply (Z.mod_unique_pos _ _ (-1)); lia.
    - rewrite Z.shiftl_spec by lia. replace (Z.testbit x (i + (n - r))) with false; [rewrite orb_false_r; f_equal; symmetry; apply Z.mod_small; lia|].
      symmetry. rewrite <- (Z.mod_small x (2 ^ n)) by lia. apply Z.mod_pow2_bits_high. lia.
  Qed.
  Theorem ror_bits : forall i, 0 <= i < n -> Z.testbit (ev (shift_val Ror a b)) i = Z.testbit x ((i + ev b mod n) mod n).
  Proof.
    intros i Hi. unfold shift_val. rewrite eval_op_node, size_op2 by lia. cbn [map]. unfold eval_op. change (opk_of ">>>") with ORor. fold n x.
    replace (n =? 0) with false by (symmetry; apply Z.eqb_neq; lia). fold x n in Ra. unfold ror. cbv zeta. replace (wrap n x) with x by (symmetry; apply Z.mod_small; exact Ra).
    set (r := ev b mod n). assert (Rr : 0 <= r < n) by (apply Z.mod_pos_bound; lia).
    unfold wrap. rewrite Z.mod_pow2_bits_low by lia. rewrite Z.lor_spec, Z.shiftr_spec by lia.
    destruct (Z_lt_le_dec (i + r) n) as [L|L].
    - rewrite (Z.mod_small (i + r) n) by lia. destruct (Z_lt_le_dec i (n - r)) as [M|M]; [|lia]. rewrite Z.shiftl_spec_low by lia. apply orb_false_r.
    - replace (Z.testbit x (i + r)) with false by (symmetry; rewrite <- (Z.mod_small x (2 ^ n)) by lia; apply Z.mod_pow2_bits_high; lia). cbn [orb].
      rewrite Z.shiftl_spec by lia. f_equal. apply (Z.mod_unique_pos _ _ 1); lia.
  Qed.
End Meaning.
