(** SimpIdem.v — idempotence of the simplifier on well-formed trees (C13): the result of simp is a DEEP normal form — every
    node of it is left unchanged by the rewriting step _expr_simp — and simplifying a deep normal form returns it unchanged.
    Well-formedness (SimpProofs.wf, fragments 1-3) is used for one thing only: on well-formed trees whose identifier predicate
    determines the is_term flag, == (expr_eqb, which ignores the signedness tag of constants and is_term) is Leibniz equality. *)
From Coq Require Import ZArith List Bool String Lia.
From Mx Require Import Expr ExprProofs Simp ComposeProofs SimpProofs.
Import ListNotations.
Open Scope Z_scope.

Section Idem.
  Variable ac : bool.
  Variable IdQ : string -> Z -> bool -> bool -> bool.
  Hypothesis IdQ_det : forall n w r t t', IdQ n w r t = true -> IdQ n w r t' = true -> t = t'.
  Notation wfq := (wf ac IdQ).
  Let rho0 : string -> Z := fun _ => 0.
  Let mu0 : Z -> Z := fun _ => 0.
  Let iota0 : string -> list Z -> Z := fun _ _ => 0.
  Notation goodq := (good ac IdQ rho0 mu0 iota0).

  (** == is equality on well-formed trees *)
  Lemma wf_eqb_eq : forall x y, wfq x = true -> wfq y = true -> expr_eqb x y = true -> x = y.
  Proof.
    induction x using expr_ind'; intros y Wx Wy E; destruct y;
      try (pose proof (eqb_diff _ _ E) as D; simpl in D; contradiction); try (simpl in Wx; discriminate); try (simpl in Wy; discriminate).
    - rewrite eqb_int in E. apply andb_true_iff in E as [E1 E2]. apply Z.eqb_eq in E1, E2. subst.
      simpl in Wx, Wy. destruct sg, sg0; try discriminate; reflexivity.
    - rewrite eqb_id in E. apply andb_true_iff in E as [E E3]. apply andb_true_iff in E as [E1 E2].
      apply String.eqb_eq in E1. apply Z.eqb_eq in E2. apply eqb_prop in E3. subst.
      simpl in Wx, Wy. apply andb_true_iff in Wx as [_ Q1]. apply andb_true_iff in Wy as [_ Q2]. rewrite (IdQ_det _ _ _ _ _ Q1 Q2). reflexivity.
    - rewrite eqb_mem in E. apply andb_true_iff in E as [E E3]. apply andb_true_iff in E as [E1 E2]. apply Z.eqb_eq in E2. subst.
      simpl in Wx, Wy. apply andb_true_iff in Wx as [Wx Ws]. apply andb_true_iff in Wx as [Wa _].
      apply andb_true_iff in Wy as [Wy Ws']. apply andb_true_iff in Wy as [Wa' _].
      rewrite (IHx y Wa Wa' E1). destruct s as [u|], segm as [u'|]; simpl in E3; try discriminate; [|reflexivity].
      rewrite (H u' Ws Ws' E3). reflexivity.
    - rewrite eqb_op in E. apply andb_true_iff in E as [E1 E2]. apply String.eqb_eq in E1. subst.
      simpl in Wx, Wy. apply andb_true_iff in Wx as [Wl _]. apply andb_true_iff in Wy as [Wl' _]. f_equal.
      revert args0 Wl' E2. induction H as [|a l Ha Hl IH]; intros [|b l'] Wl' E2; simpl in E2; try discriminate; [reflexivity|].
      simpl in Wl, Wl'. apply andb_true_iff in Wl as [Wa Wr]. apply andb_true_iff in Wl' as [Wb Wr']. apply andb_true_iff in E2 as [Eab Er].
      rewrite (Ha b Wa Wb Eab), (IH Wr l' Wr' Er). reflexivity.
    - rewrite eqb_cond in E. apply andb_true_iff in E as [E E3]. apply andb_true_iff in E as [E1 E2].
      simpl in Wx, Wy. repeat (apply andb_true_iff in Wx as [Wx ?]). repeat (apply andb_true_iff in Wy as [Wy ?]).
      rewrite (IHx1 y1), (IHx2 y2), (IHx3 y3); auto.
    - rewrite eqb_slice in E. apply andb_true_iff in E as [E E3]. apply andb_true_iff in E as [E1 E2]. apply Z.eqb_eq in E2, E3. subst.
      simpl in Wx, Wy. repeat (apply andb_true_iff in Wx as [Wx ?]). repeat (apply andb_true_iff in Wy as [Wy ?]).
      rewrite (IHx y); auto.
    - rewrite eqb_compose in E. destruct (wf_compose_inv ac IdQ _ Wx) as (_ & _ & Hx & _). destruct (wf_compose_inv ac IdQ _ Wy) as (_ & _ & Hy & _). f_equal.
      clear Wx Wy. revert args0 Hy E. induction H as [|s l Hs Hl IH]; intros [|t l'] Hy E; simpl in E; try discriminate; [reflexivity|].
      apply andb_true_iff in E as [Est Er]. unfold slot_eqb in Est. apply andb_true_iff in Est as [Est E3]. apply andb_true_iff in Est as [E1 E2]. apply Z.eqb_eq in E2, E3.
      assert (Q : slot_e s = slot_e t) by (apply Hs; [apply (Hx s); left; reflexivity | apply (Hy t); left; reflexivity | exact E1]).
      rewrite (IH (fun u Iu => Hx u (or_intror Iu)) l' (fun u Iu => Hy u (or_intror Iu)) Er). f_equal.
      destruct s as [[es ls] hs], t as [[et lt] ht]. unfold slot_e, slot_lo, slot_hi in *. cbn [fst snd] in *. subst. reflexivity.
  Qed.

  (** deep normal forms *)
  Fixpoint DF (e : expr) : Prop :=
    simp1 e = Ok e /\
    match e with
    | EMem a _ s => DF a /\ match s with Some u => DF u | None => True end
    | EOp _ args => (fix all (l : list expr) : Prop := match l with [] => True | x :: r => DF x /\ all r end) args
    | ECond c a b => DF c /\ DF a /\ DF b
    | ESlice a _ _ => DF a
    | ECompose slots => (fix alls (l : list slot) : Prop := match l with [] => True | x :: r => DF (slot_e x) /\ alls r end) slots
    | _ => True
    end.
  Definition kids (e : expr) : Prop :=
    match e with
    | EMem a _ s => DF a /\ match s with Some u => DF u | None => True end
    | EOp _ args => Forall DF args
    | ECond c a b => DF c /\ DF a /\ DF b
    | ESlice a _ _ => DF a
    | ECompose slots => Forall (fun s => DF (slot_e s)) slots
    | _ => True
    end.
  Lemma DF_all l : (fix all (l : list expr) : Prop := match l with [] => True | x :: r => DF x /\ all r end) l <-> Forall DF l.
  Proof. induction l as [|a l IH]; split; intros H; try constructor; try exact I; try (destruct H as [A B]; tauto); inversion H; subst; tauto. Qed.
  Lemma DF_alls l : (fix alls (l : list slot) : Prop := match l with [] => True | x :: r => DF (slot_e x) /\ alls r end) l <-> Forall (fun s => DF (slot_e s)) l.
  Proof. induction l as [|a l IH]; split; intros H; try constructor; try exact I; try (destruct H as [A B]; tauto); inversion H; subst; tauto. Qed.
  Lemma DF_unfold e : DF e <-> simp1 e = Ok e /\ kids e.
  Proof. destruct e; simpl; try tauto; [rewrite DF_all | rewrite DF_alls]; tauto. Qed.

  (** simplifying a deep normal form returns it *)
  Lemma visit_DF_id cb : (forall x, simp1 x = Ok x -> cb x = Ok x) -> forall e, wfq e = true -> DF e -> visitM cb e = Ok e.
  Proof.
    intros Hcb. induction e using expr_ind'; intros W D; try (simpl in W; discriminate); apply DF_unfold in D as [S K]; cbn [kids] in K.
    - simpl. apply Hcb. exact S.
    - simpl. apply Hcb. exact S.
    - destruct K as [Ka Ks]. simpl in W. apply andb_true_iff in W as [W Ws]. apply andb_true_iff in W as [Wa _]. simpl. destruct s as [u|].
      + rewrite (H Ws Ks). cbn [bind]. rewrite (IHe Wa Ka). cbn [bind opt_eqb]. rewrite !eqb_refl. cbn [andb]. apply Hcb. exact S.
      + rewrite (IHe Wa Ka). cbn [bind opt_eqb]. rewrite eqb_refl. cbn [andb]. apply Hcb. exact S.
    - simpl in W. apply andb_true_iff in W as [Wl _]. simpl. assert (M : mapM (visitM cb) args = Ok args).
      { clear S. induction H as [|a l Ha Hl IH]; [reflexivity|]. inversion K as [|? ? Da Dl]; subst. simpl in Wl. apply andb_true_iff in Wl as [Wa Wr].
        simpl. rewrite (Ha Wa Da). cbn [bind]. rewrite (IH Wr Dl). reflexivity. }
      rewrite M. cbn [bind]. rewrite (all2_refl expr_eqb args) by (apply Forall_forall; intros; apply eqb_refl). apply Hcb. exact S.
    - destruct K as (K1 & K2 & K3). simpl in W. repeat (apply andb_true_iff in W as [W ?]).
      simpl. rewrite (IHe1 W K1). cbn [bind]. rewrite (IHe2 H1 K2). cbn [bind]. rewrite (IHe3 H0 K3). cbn [bind].
      rewrite !eqb_refl. cbn [andb]. apply Hcb. exact S.
    - simpl in W. repeat (apply andb_true_iff in W as [W ?]). simpl. rewrite (IHe W K). cbn [bind]. rewrite eqb_refl. apply Hcb. exact S.
    - destruct (wf_compose_inv ac IdQ _ W) as (_ & _ & Hw & _). simpl.
      assert (M : mapM (fun s => do x <- visitM cb (slot_e s); Ok (x, slot_lo s, slot_hi s)) args = Ok args).
      { clear S W. revert K Hw. induction H as [|s l Hs Hl IH]; intros K Hw; [reflexivity|]. inversion K as [|? ? Ds Dl]; subst. simpl. rewrite (Hs (proj1 (Hw s (or_introl eq_refl))) Ds). cbn [bind].
        rewrite (IH Dl (fun u Iu => Hw u (or_intror Iu))). cbn [bind]. destruct s as [[es ls] hs]. reflexivity. }
      rewrite M. cbn [bind]. rewrite (all2_refl _ args) by (apply Forall_forall; intros s _; rewrite eqb_refl, !Z.eqb_refl; reflexivity). apply Hcb. exact S.
  Qed.

  Lemma loop_DF_id rec n x : simp1 x = Ok x -> simp_loop rec (S n) x = Ok x.
  Proof. intros S. cbn [simp_loop]. rewrite S. cbn [bind]. rewrite eqb_refl. reflexivity. Qed.

  Theorem simp_of_normal_form : forall f e, wfq e = true -> DF e -> simp (S f) e = Ok e.
  Proof. intros f e W D. cbn [simp]. apply visit_DF_id; [|exact W | exact D]. intros x S. apply loop_DF_id. exact S. Qed.

  (** the result of the simplifier is a deep normal form *)
  Section Frame.
    Variable cb : expr -> res expr.
    Hypothesis cb_good : forall x x', wfq x = true -> cb x = Ok x' -> goodq x x'.
    Hypothesis cb_int : forall sg w v x', cb (EInt sg w v) = Ok x' -> is_int x' = true.
    Hypothesis cb_DF : forall x r, wfq x = true -> kids x -> cb x = Ok r -> DF r.

    Lemma visit_DF : forall e rr, wfq e = true -> visitM cb e = Ok rr -> DF rr.
    Proof.
      induction e using expr_ind'; intros rr W HV; try (simpl in W; discriminate).
      - simpl in HV. apply (cb_DF _ _ W I HV).
      - simpl in HV. apply (cb_DF _ _ W I HV).
      - (* EMem *)
        pose proof W as W'. simpl in W'. apply andb_true_iff in W' as [W' Ws]. apply andb_true_iff in W' as [Wa Ww].
        simpl in HV. destruct s as [u|].
        + destruct (visitM cb u) as [u'| |] eqn:Eu; try discriminate. cbn [bind] in HV.
          destruct (visitM cb e) as [a'| |] eqn:Ea; try discriminate. cbn [bind] in HV.
          pose proof (visit_good ac IdQ rho0 mu0 iota0 cb cb_good cb_int u u' Ws Eu) as (Wu' & _). pose proof (visit_good ac IdQ rho0 mu0 iota0 cb cb_good cb_int e a' Wa Ea) as (Wa' & _).
          assert (X : (if opt_eqb expr_eqb (Some u') (Some u) && expr_eqb a' e then EMem e w (Some u) else EMem a' w (Some u')) = EMem a' w (Some u')).
          { destruct (opt_eqb expr_eqb (Some u') (Some u) && expr_eqb a' e) eqn:Q; [|reflexivity]. apply andb_true_iff in Q as [Q1 Q2]. simpl in Q1.
            rewrite (wf_eqb_eq u' u Wu' Ws Q1), (wf_eqb_eq a' e Wa' Wa Q2). reflexivity. }
          rewrite X in HV. apply (cb_DF (EMem a' w (Some u')) rr); [simpl; rewrite Wa', Ww, Wu'; reflexivity | | exact HV].
          cbn [kids]. split; [apply (IHe a' Wa ltac:(first [reflexivity | exact Ea])) | apply (H u' Ws ltac:(first [reflexivity | exact Eu]))].
        + destruct (visitM cb e) as [a'| |] eqn:Ea; try discriminate. cbn [bind] in HV.
          pose proof (visit_good ac IdQ rho0 mu0 iota0 cb cb_good cb_int e a' Wa Ea) as (Wa' & _).
          assert (X : (if opt_eqb expr_eqb None None && expr_eqb a' e then EMem e w None else EMem a' w None) = EMem a' w None).
          { destruct (opt_eqb expr_eqb None None && expr_eqb a' e) eqn:Q; [|reflexivity]. apply andb_true_iff in Q as [_ Q2]. rewrite (wf_eqb_eq a' e Wa' Wa Q2). reflexivity. }
          rewrite X in HV. apply (cb_DF (EMem a' w None) rr); [simpl; rewrite Wa', Ww; reflexivity | | exact HV].
          cbn [kids]. split; [apply (IHe a' Wa ltac:(first [reflexivity | exact Ea])) | exact I].
      - (* EOp *)
        pose proof W as W'. simpl in W'. apply andb_true_iff in W' as [Wl O]. apply forallb_Forall in Wl.
        simpl in HV. destruct (mapM (visitM cb) args) as [args'| |] eqn:Em; try discriminate. cbn [bind] in HV.
        assert (F2 : Forall2 goodq args args').
        { apply (mapM_good ac IdQ rho0 mu0 iota0 (visitM cb)); [|exact Wl | exact Em]. apply Forall_forall. intros a _ a' Wa Ea. apply (visit_good ac IdQ rho0 mu0 iota0 cb cb_good cb_int); assumption. }
        pose proof (node_good ac IdQ rho0 mu0 iota0 op args args' W F2) as (Wn & _).
        assert (FD : Forall DF args').
        { clear - H Wl Em. revert args' Em. induction H as [|a l Ha Hl IH]; intros args' Em; simpl in Em; [inversion Em; constructor|].
          inversion Wl as [|? ? Wa Wr]; subst. destruct (visitM cb a) as [a'| |] eqn:Ea; try discriminate. cbn [bind] in Em.
          destruct (mapM (visitM cb) l) as [l'| |] eqn:El; try discriminate. cbn [bind] in Em. inversion Em; subst. constructor; [apply (Ha a' Wa ltac:(first [reflexivity | exact Ea])) | apply (IH Wr l' ltac:(first [reflexivity | exact El]))]. }
        assert (X : (if all2 expr_eqb args args' then EOp op args else EOp op args') = EOp op args').
        { destruct (all2 expr_eqb args args') eqn:Q; [|reflexivity]. f_equal. clear - F2 Wl Q IdQ_det.
          revert Q. induction F2 as [|a a' l l' Ga Gl IH]; intros Q; [reflexivity|]. simpl in Q. apply andb_true_iff in Q as [Q1 Q2]. inversion Wl as [|? ? Wa Wr]; subst.
          rewrite (wf_eqb_eq a a' Wa ltac:(apply Ga) Q1), (IH Wr Q2). reflexivity. }
        rewrite X in HV. apply (cb_DF (EOp op args') rr Wn); [exact FD | exact HV].
      - (* ECond *)
        pose proof W as W'. simpl in W'. repeat (apply andb_true_iff in W' as [W' ?]).
        rename H into Sab, H0 into Wb, H1 into Wa. simpl in HV.
        destruct (visitM cb e1) as [c'| |] eqn:E1; try discriminate. cbn [bind] in HV.
        destruct (visitM cb e2) as [a'| |] eqn:E2; try discriminate. cbn [bind] in HV.
        destruct (visitM cb e3) as [b'| |] eqn:E3; try discriminate. cbn [bind] in HV.
        destruct (visit_good ac IdQ rho0 mu0 iota0 cb cb_good cb_int e1 c' W' E1) as (Wc' & Sc' & _). destruct (visit_good ac IdQ rho0 mu0 iota0 cb cb_good cb_int e2 a' Wa E2) as (Wa' & Sa' & _).
        destruct (visit_good ac IdQ rho0 mu0 iota0 cb cb_good cb_int e3 b' Wb E3) as (Wb' & Sb' & _).
        assert (X : (if expr_eqb c' e1 && expr_eqb a' e2 && expr_eqb b' e3 then ECond e1 e2 e3 else ECond c' a' b') = ECond c' a' b').
        { destruct (expr_eqb c' e1 && expr_eqb a' e2 && expr_eqb b' e3) eqn:Q; [|reflexivity]. apply andb_true_iff in Q as [Q Q3]. apply andb_true_iff in Q as [Q1 Q2].
          rewrite (wf_eqb_eq c' e1 Wc' W' Q1), (wf_eqb_eq a' e2 Wa' Wa Q2), (wf_eqb_eq b' e3 Wb' Wb Q3). reflexivity. }
        rewrite X in HV. apply (cb_DF (ECond c' a' b') rr); [simpl; rewrite Wc', Wa', Wb', Sa', Sb'; cbn [andb]; exact Sab | | exact HV].
        cbn [kids]. repeat split; [apply (IHe1 c' W' ltac:(first [reflexivity | exact E1])) | apply (IHe2 a' Wa ltac:(first [reflexivity | exact E2])) | apply (IHe3 b' Wb ltac:(first [reflexivity | exact E3]))].
      - (* ESlice *)
        destruct (wf_slice_inv ac IdQ _ _ _ W) as (Wa & L0 & Llh & Lhs). simpl in HV.
        destruct (visitM cb e) as [a'| |] eqn:Ea; try discriminate. cbn [bind] in HV.
        destruct (visit_good ac IdQ rho0 mu0 iota0 cb cb_good cb_int e a' Wa Ea) as (Wa' & Sa' & _).
        assert (X : (if expr_eqb a' e then ESlice e lo hi else ESlice a' lo hi) = ESlice a' lo hi).
        { destruct (expr_eqb a' e) eqn:Q; [|reflexivity]. rewrite (wf_eqb_eq a' e Wa' Wa Q). reflexivity. }
        rewrite X in HV. apply (cb_DF (ESlice a' lo hi) rr); [| cbn [kids]; apply (IHe a' Wa ltac:(first [reflexivity | exact Ea])) | exact HV].
        simpl. rewrite Wa', Sa'. cbn [andb]. apply andb_true_iff. split; [apply andb_true_iff; split; [apply Z.leb_le; lia | apply Z.ltb_lt; lia] | apply Z.leb_le; lia].
      - (* ECompose *)
        destruct (wf_compose_inv ac IdQ _ W) as (_ & _ & Hw & _).
        simpl in HV. destruct (mapM (fun s => do x <- visitM cb (slot_e s); Ok (x, slot_lo s, slot_hi s)) args) as [args'| |] eqn:Em; try discriminate. cbn [bind] in HV.
        assert (F2 : Forall2 (slot_rel ac IdQ rho0 mu0 iota0) args args' /\ Forall (fun s => DF (slot_e s)) args').
        { clear HV W. revert args' Em. induction H as [|s l Hs0 Hl IH]; intros args' Em; simpl in Em; [inversion Em; split; constructor|].
          destruct (visitM cb (slot_e s)) as [x| |] eqn:Ex0; try discriminate. cbn [bind] in Em.
          destruct (mapM (fun s => do x <- visitM cb (slot_e s); Ok (x, slot_lo s, slot_hi s)) l) as [l'| |] eqn:El; try discriminate. cbn [bind] in Em. inversion Em; subst.
          destruct (IH (fun u Iu => Hw u (or_intror Iu)) l' eq_refl) as [I1 I2]. pose proof (proj1 (Hw s (or_introl eq_refl))) as Ws.
          split; constructor; try assumption.
          - unfold slot_rel, slot_e at 2, slot_lo at 1, slot_hi at 1. cbn [fst snd].
            split; [apply (visit_good ac IdQ rho0 mu0 iota0 cb cb_good cb_int (slot_e s) x Ws); first [reflexivity | exact Ex0]|]. split; [reflexivity|]. split; [reflexivity|].
            intros Ii. destruct (slot_e s) as [sg w v| | | | | | |]; try discriminate. simpl in Ex0. apply (cb_int _ _ _ _ Ex0).
          - unfold slot_e at 1. cbn [fst snd]. apply (Hs0 x Ws); first [reflexivity | exact Ex0]. }
        destruct F2 as [F2 FD]. pose proof (compose_node_good ac IdQ rho0 mu0 iota0 args args' W F2) as (Wn & _).
        assert (X : (if all2 (fun s s' => expr_eqb (slot_e s) (slot_e s') && (slot_lo s =? slot_lo s') && (slot_hi s =? slot_hi s')) args args' then ECompose args else ECompose args') = ECompose args').
        { destruct (all2 _ args args') eqn:Q; [|reflexivity]. f_equal. destruct (wf_compose_inv ac IdQ _ Wn) as (_ & _ & Hw' & _). clear - Q Hw Hw' IdQ_det.
          revert args' Q Hw'. induction args as [|s l IH]; intros [|t l'] Q Hw'; simpl in Q; try discriminate; [reflexivity|].
          apply andb_true_iff in Q as [Qs Qr]. apply andb_true_iff in Qs as [Qs Q3]. apply andb_true_iff in Qs as [Q1 Q2]. apply Z.eqb_eq in Q2, Q3.
          assert (E1 : slot_e s = slot_e t) by (apply wf_eqb_eq; [apply (Hw s); left; reflexivity | apply (Hw' t); left; reflexivity | exact Q1]).
          rewrite (IH (fun u Iu => Hw u (or_intror Iu)) l' Qr (fun u Iu => Hw' u (or_intror Iu))). f_equal.
          destruct s as [[es ls] hs], t as [[et lt] ht]. unfold slot_e, slot_lo, slot_hi in *. cbn [fst snd] in *. subst. reflexivity. }
        rewrite X in HV. apply (cb_DF (ECompose args') rr Wn); [exact FD | exact HV].
    Qed.
  End Frame.

  Lemma DF_kids e : DF e -> kids e.
  Proof. intros D. apply DF_unfold in D. apply D. Qed.

  Lemma loop_DF (rec_simp : expr -> res expr) :
    (forall x x', wfq x = true -> rec_simp x = Ok x' -> goodq x x') -> (forall x r, wfq x = true -> rec_simp x = Ok r -> DF r) ->
    forall n x r, wfq x = true -> kids x -> simp_loop rec_simp n x = Ok r -> DF r.
  Proof.
    intros RG RD. induction n as [|n IH]; intros x r W K H; simpl in H; [discriminate|].
    destruct (simp1 x) as [x1| |] eqn:E1; try discriminate. cbn [bind] in H.
    pose proof (simp1_good ac IdQ rho0 mu0 iota0 x x1 W E1) as G1.
    destruct (expr_eqb x1 x) eqn:Q.
    - inversion H; subst r. apply DF_unfold. split; [|exact K]. rewrite E1. f_equal. apply wf_eqb_eq; [apply G1 | exact W | exact Q].
    - destruct (rec_simp x1) as [e2| |] eqn:E2; try discriminate. cbn [bind] in H.
      pose proof (RG x1 e2 ltac:(apply G1) E2) as G2. pose proof (RD x1 e2 ltac:(apply G1) E2) as D2.
      apply (IH e2 r); [apply G2 | apply DF_kids; exact D2 | exact H].
  Qed.

  Theorem simp_result_is_normal_form : forall fuel e r, wfq e = true -> simp fuel e = Ok r -> DF r.
  Proof.
    induction fuel as [|f IH]; intros e r W H; [simpl in H; discriminate|].
    simpl in H. apply (visit_DF (simp_loop (simp f) (S f))) with (e := e); [| | |exact W | exact H].
    - intros x x' Wx Hx. apply (loop_good ac IdQ rho0 mu0 iota0 (simp f) (simp_good ac IdQ rho0 mu0 iota0 f) (S f)); assumption.
    - intros sg w v x' Hx. apply (loop_int _ _ _ _ _ _ Hx).
    - intros x r0 Wx Kx Hx. apply (loop_DF (simp f) (simp_good ac IdQ rho0 mu0 iota0 f) IH (S f) x r0 Wx Kx Hx).
  Qed.

  (** idempotence *)
  Theorem simp_idempotent : forall fuel e r, wfq e = true -> simp fuel e = Ok r -> forall f, simp (S f) r = Ok r.
  Proof.
    intros fuel e r W H f. apply simp_of_normal_form; [apply (simp_good ac IdQ rho0 mu0 iota0 fuel e r W H) | apply (simp_result_is_normal_form fuel e r W H)].
  Qed.
End Idem.
