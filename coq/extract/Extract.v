(** Extraction of the executable models for the correspondence checks.
    ExtrOcamlBasic only: bool/list/option/prod/unit/sumbool -> OCaml's; Z, N, positive, nat, ascii,
    string stay extracted inductives.  No Extract Constant / Extract Inductive of our own.
    Every function the OCaml driver calls is re-exported under a unique mx_ name (extraction renames clashing identifiers). *)
From Coq Require Import ZArith List Bool String.
Import ListNotations.
From Coq Require Extraction ExtrOcamlBasic.
From Mx Require ModInt Expr Simp EvalAbs X86Types X86Dis Ppc Wf Asm Operand Att.
From MxGen Require X86Tables PpcTables AttTables.
Extraction Language OCaml.
Definition mx_binop_apply := ModInt.binop_apply.
Definition mx_unop_apply := ModInt.unop_apply.
Definition mx_cmp_apply := ModInt.cmp_apply.
Definition mx_norm := ModInt.norm.
Definition mx_size := Expr.size.
Definition mx_eval := Expr.eval.
Definition mx_expr_eqb := Expr.expr_eqb.
Definition mx_copy := Expr.copy.
Definition mx_visit := Expr.visit.
Definition mx_replace_expr := Expr.replace_expr.
Definition mx_canonize := Expr.canonize.
Definition mx_get_r := Expr.get_r.
Definition mx_get_w := Expr.get_w.
Definition mx_get_expr_ids := Expr.get_expr_ids.
Definition mx_match_expr := Expr.match_expr.
Definition mx_key_expr := Expr.key_expr.
Definition mx_key_cmp := Expr.key_cmp.
Definition mx_simp := Simp.simp.
Definition mx_simp1 := Simp.simp1.
Definition mx_eval_expr := EvalAbs.eval_expr.
Definition mx_eval_instr := EvalAbs.eval_instr.
Definition mx_simpF := EvalAbs.simpF.
Definition mx_pool_set := EvalAbs.pool_set.
Definition mx_dis := X86Dis.dis.
Definition mx_flow_flags := X86Dis.flow_flags.
Definition mx_getnextflow := X86Dis.getnextflow.
Definition mx_getdstflow := X86Dis.getdstflow.
Definition mx_x86_tables := X86Tables.x86_tables.
Definition mx_claimants := Ppc.claimants.
Definition mx_reencode := Ppc.reencode.
Definition mx_ppc_classes := PpcTables.ppc_classes.
Definition mx_violated := Wf.violated.
Definition mx_check_imm_size := Asm.check_imm_size.
Definition mx_emit := Asm.emit.
Definition mx_ikinds := [Asm.U08; Asm.S08; Asm.U16; Asm.S16; Asm.U32; Asm.S32].
Definition mx_norm32 := Operand.norm32.
Definition mx_dict_add := Operand.dict_add.
Definition mx_dict_sub := Operand.dict_sub.
Definition mx_dict_scale := Operand.dict_scale.
Definition mx_to_att := Att.mnemo_to_att AttTables.att_tables.
Definition mx_from_att := Att.mnemo_from_att AttTables.att_tables.
Definition mx_mkai := Att.mkai.
Definition mx_szks := [Att.Su08; Att.Su16; Att.Su32; Att.Sf32; Att.Sf64; Att.Sf80; Att.Sxmm; Att.Sother].
Extraction "model.ml" mx_binop_apply mx_unop_apply mx_cmp_apply mx_norm mx_size mx_eval mx_expr_eqb mx_copy mx_visit mx_replace_expr mx_canonize mx_get_r mx_get_w mx_get_expr_ids mx_match_expr mx_key_expr mx_key_cmp mx_simp mx_simp1 mx_eval_expr mx_eval_instr mx_simpF mx_pool_set mx_dis mx_flow_flags mx_getnextflow mx_getdstflow mx_x86_tables mx_claimants mx_reencode mx_ppc_classes mx_violated mx_check_imm_size mx_emit mx_ikinds mx_to_att mx_from_att mx_mkai mx_szks mx_norm32 mx_dict_add mx_dict_sub mx_dict_scale
  BinInt.Z.add BinInt.Z.mul BinInt.Z.opp BinInt.Z.div BinInt.Z.modulo.
