(** Extraction of the executable models for the correspondence checks.
    ExtrOcamlBasic only: bool/list/option/prod/unit/sumbool -> OCaml's; Z, N, positive, nat, ascii,
    string stay extracted inductives.  No Extract Constant / Extract Inductive of our own. *)
From Coq Require Import ZArith List Bool String.
From Coq Require Extraction ExtrOcamlBasic.
From Mx Require ModInt Expr Simp EvalAbs X86Types X86Dis Ppc Wf.
From MxGen Require X86Tables PpcTables.
Extraction Language OCaml.
Extraction "model.ml" ModInt.binop_apply ModInt.unop_apply ModInt.cmp_apply ModInt.in_rangeb
  BinInt.Z.add BinInt.Z.mul BinInt.Z.opp BinInt.Z.of_nat BinInt.Z.div BinInt.Z.modulo BinInt.Z.eqb BinInt.Z.ltb
  Expr.size Expr.eval Expr.expr_eqb Expr.hash Expr.copy Expr.visit Expr.replace_expr Expr.canonize
  Expr.get_r Expr.get_w Expr.get_expr_ids Expr.match_expr Expr.key_expr Expr.key_cmp
  Simp.simp Simp.simp1
  EvalAbs.eval_expr EvalAbs.eval_instr EvalAbs.simpF EvalAbs.pool_set
  X86Dis.dis X86Dis.flow_flags X86Dis.getnextflow X86Dis.getdstflow X86Tables.x86_tables
  Ppc.claimants Ppc.reencode PpcTables.ppc_classes
  Wf.violated.
