(** Extraction of the executable models for the correspondence checks.
    ExtrOcamlBasic only: bool/list/option/prod/unit/sumbool -> OCaml's; Z, N, positive, nat stay
    extracted inductives.  No Extract Constant. *)
From Coq Require Import ZArith List Bool.
From Coq Require Extraction ExtrOcamlBasic.
From Mx Require ModInt.
Extraction Language OCaml.
Extraction "model.ml" ModInt.binop_apply ModInt.unop_apply ModInt.cmp_apply ModInt.in_rangeb
  BinInt.Z.add BinInt.Z.mul BinInt.Z.opp BinInt.Z.of_nat BinInt.Z.div BinInt.Z.modulo BinInt.Z.eqb BinInt.Z.ltb.
