(** C09 — Intel and AT&T renderings denote the same instruction.  Property theorems only.
    Proved here (the mnemonic / size-suffix half of the conversion, model Att.v on the tables regenerated from /repo, tied to
    mnemo_to_att / mnemo_from_att by exact-output correspondence over the whole vocabulary): for every mnemonic of the tables,
    every operand-size class, memory or register first operand and both values of the st(0)-destination flag, the AT&T spelling
    converts back to the same Intel mnemonic and, where a size suffix was chosen, to the same operand size — including the
    historical fsub/fdiv reversal, applied in both directions — except fisttp m16 (refuted; known finding).
    NOT proved: operand order, sigils and memory-operand layout of the two renderers and both grammars; those clauses, and
    acceptance by GNU as, are decided on the implementation (harness/p_c09.py). *)
From Coq Require Import List String Bool.
From Mx Require Import Att AttFacts.
From MxGen Require Import AttTables.
Import ListNotations.
Open Scope string_scope.

Theorem C09_att_mnemonic_round_trip : forall name a, In name (vocab att_tables) -> In a (infos name) ->
  valid att_tables name a = true -> att_known name a = false -> rt_ok att_tables name a = true.
Proof. exact att_roundtrip. Qed.
Print Assumptions C09_att_mnemonic_round_trip.

Theorem C09_fisttp_word_refuted : mnemo_to_att att_tables "fisttp" (mkai Su16 Su32 true false) = Some "fisttpw" /\ mnemo_from_att att_tables "fisttpw" false = FRaise.
Proof. exact fisttp_word_refuted. Qed.
Print Assumptions C09_fisttp_word_refuted.

Theorem C09_fsub_fdiv_reversal : mnemo_to_att att_tables "fsub" (mkai Sother Sother false true) = Some "fsubr" /\ mnemo_from_att att_tables "fsubr" true = FOk "fsub" None /\
                                 mnemo_to_att att_tables "fsub" (mkai Sother Sother false false) = Some "fsub".
Proof. exact fsub_reversal. Qed.
Print Assumptions C09_fsub_fdiv_reversal.

Example C09_nonvacuous : mnemo_to_att att_tables "add" (mkai Su16 Su32 true false) = Some "addw" /\ mnemo_from_att att_tables "addw" false = FOk "add" (Some Su16) /\
  mnemo_to_att att_tables "movsx" (mkai Su32 Su08 false false) = Some "movsbl" /\ mnemo_from_att att_tables "movsbl" false = FOk "movsx" (Some Su08).
Proof. vm_compute. repeat split; reflexivity. Qed.
