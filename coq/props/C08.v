(** C08 — read/write sets of lifted semantics never omit a dependency.  Property theorems only.
    The IR half of the property is a theorem: for ANY assignment list (in particular every list the lifter returns, whatever
    the instruction), the union of get_r(mem_read=True) over the list contains every identifier and memory cell its values
    depend on, and get_w names every destination.  The processor half (the lifted list describes the instruction: C04) is
    decided by dependency and write probing against the SDM reference (harness/p_c08.py). *)
From Coq Require Import ZArith List Bool String.
From Mx Require Import Expr ExprProofs.
Import ListNotations.
Open Scope Z_scope.

(** If two states agree on everything in the reported read set, every assignment of the list computes the same value in both:
    no register, flag or memory cell outside the read set can influence any result of the lifted semantics. *)
Theorem C08_read_set_complete : forall rho rho' mu mu' iota l,
  (forall x, InR x (reads l) -> agree rho rho' mu mu' iota true x) ->
  map (eval rho mu iota) l = map (eval rho' mu' iota) l.
Proof. exact reads_coincidence. Qed.
Print Assumptions C08_read_set_complete.

(** the addresses of the written cells depend only on the read set as well (ExprAff.get_r does not include the destination's
    address registers: they must be, and are, reported through the source or checked by write probing) *)
Theorem C08_get_w_names_destination_id : forall n w r t s, get_w (EAff (EId n w r t) s) = Some [EId n w r t].
Proof. reflexivity. Qed.
Print Assumptions C08_get_w_names_destination_id.
Theorem C08_get_w_names_destination_mem : forall a w sg s, get_w (EAff (EMem a w sg) s) = Some [EMem a w sg].
Proof. reflexivity. Qed.
Print Assumptions C08_get_w_names_destination_mem.

Example C08_nonvacuous :
  reads [EAff (EId "eax" 32 true false) (EOp "+" [EId "eax" 32 true false; EMem (EId "ebx" 32 true false) 32 None]);
         EAff (EId "zf" 1 true false) (EId "cf" 1 true false)]
  = [EId "eax" 32 true false; EId "ebx" 32 true false; EMem (EId "ebx" 32 true false) 32 None; EId "cf" 1 true false].
Proof. vm_compute. reflexivity. Qed.
