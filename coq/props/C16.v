(** C16 — read sets and pattern matching are semantically exact.  Property theorems only. *)
From Coq Require Import ZArith List Bool String.
From Mx Require Import Expr ExprProofs MatchProofs.
Import ListNotations.
Open Scope Z_scope.

(** If two states agree on every identifier in the reported read set and on every reported memory
    cell (mem_read=True: the bytes at the cell's address; mem_read=False: the cell as an atom), the
    expression has the same value in both — for all trees, valuations, memories, operator meanings. *)
Theorem C16_get_r_coincidence : forall rho rho' mu mu' iota f e,
  (forall x, InR x (get_r f e) -> agree rho rho' mu mu' iota f x) ->
  eval rho mu iota e = eval rho' mu' iota e.
Proof. exact get_r_coincidence. Qed.
Print Assumptions C16_get_r_coincidence.

(** the written set of an assignment names its destination *)
Theorem C16_get_w_dst_id : forall n w r t s, get_w (EAff (EId n w r t) s) = Some [EId n w r t].
Proof. reflexivity. Qed.
Print Assumptions C16_get_w_dst_id.
Theorem C16_get_w_dst_mem : forall a w sg s, get_w (EAff (EMem a w sg) s) = Some [EMem a w sg].
Proof. reflexivity. Qed.
Print Assumptions C16_get_w_dst_mem.

(** non-vacuity: a concrete expression whose read set contains an address identifier and a cell *)
Example C16_nonvacuous :
  get_r true (EOp "+" [EMem (EId "eax" 32 true false) 32 None; EId "ebx" 32 true false])
  = [EId "eax" 32 true false; EMem (EId "eax" 32 true false) 32 None; EId "ebx" 32 true false].
Proof. vm_compute. reflexivity. Qed.

(** MatchExpr is sound: whenever it does not return False, the dictionary it returns keeps every earlier binding (up to ==) and
    the matched expression is the pattern with each wildcard replaced by the expression bound to it — constructor by constructor,
    leaves up to == — for ALL expressions, patterns, wildcard lists and initial dictionaries, through the three return conventions
    (False / True / the dictionary, an empty dictionary counting as failure inside conditionals and concatenations). *)
Theorem C16_match_sound : forall tks e m res r res', match_expr tks e m res = (r, res') -> r <> RFalse ->
  extends res res' /\ inst tks res' m e.
Proof. exact match_sound. Qed.
Print Assumptions C16_match_sound.
