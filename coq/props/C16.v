(** C16 — read sets and pattern matching (placeholder until ExprProofs lands in this round). *)
From Coq Require Import ZArith List Bool.
From Mx Require Import Expr.
Import ListNotations.
Theorem C16_get_w_dst_id : forall n w r t s, get_w (EAff (EId n w r t) s) = Some [EId n w r t].
Proof. reflexivity. Qed.
Print Assumptions C16_get_w_dst_id.
Theorem C16_get_w_dst_mem : forall a w sg s, get_w (EAff (EMem a w sg) s) = Some [EMem a w sg].
Proof. reflexivity. Qed.
Print Assumptions C16_get_w_dst_mem.
