(** C12 — results depend only on explicit inputs.  The models of expr_simp, eval_expr and eval_instr are Gallina
    FUNCTIONS of their explicit arguments: the same arguments give the same answer after any history.  What the
    check adds is that the implementation agrees with these functions inside arbitrary call histories. *)
From Coq Require Import ZArith List Bool String.
From Mx Require Import Expr Simp EvalAbs.
Import ListNotations.

Theorem C12_simp_function_of_input : forall fuel e1 e2, e1 = e2 -> simp fuel e1 = simp fuel e2.
Proof. intros; subst; reflexivity. Qed.
Print Assumptions C12_simp_function_of_input.

Theorem C12_eval_function_of_state_and_input : forall fuel s1 s2 e1 e2, s1 = s2 -> e1 = e2 -> eval_expr fuel s1 e1 = eval_expr fuel s2 e2.
Proof. intros; subst; reflexivity. Qed.
Print Assumptions C12_eval_function_of_state_and_input.

(** the recorded defect: with the per-object is_eval flag (outside these pure models) the implementation returns a
    register unevaluated; the pure model evaluates it *)
Example C12_pure_eval_of_bound_register :
  eval_expr 10 (Pool [(EId "eax" 32 true false, EInt false 32 5)] []) (EId "eax" 32 true false) = inl (Ok (EInt false 32 5)).
Proof. vm_compute. reflexivity. Qed.
