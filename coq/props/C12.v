(** C12 — results depend only on explicit inputs (no hidden state between calls).  Property theorems only.
    The models of expr_simp, eval_expr and eval_instr are Gallina functions of their explicit arguments; the one extra parameter
    they carry, the fuel that stands for Python's recursion depth and loop count, is shown NOT to be a hidden input: once a
    result is returned, any larger fuel returns the same result, so two successful runs agree whatever their fuel — for the
    simplifier, for the whole of eval_expr (FuelProofs.v: its body is monotone in the recursive call, every memory read path included)
    and for the whole instruction step eval_instr (sources, destination addresses, overlapping-cell bookkeeping).
    The property itself is about the implementation's hidden state (per-object memo flags, module-level caches, on-disk parser
    tables), which a pure model does not have: it is decided by the call-history differential of harness/p_c12.py, in which the
    implementation must agree with these functions inside arbitrary call histories.  The recorded defect (is_eval flag set on
    shared register objects) is exhibited below as a value the pure model computes and the flagged implementation does not. *)
From Coq Require Import ZArith List Bool String.
From Mx Require Import Expr Simp EvalAbs MachineProofs FuelProofs.
Import ListNotations.

Theorem C12_more_fuel_same_result : forall f f' e r, (f <= f')%nat -> simp f e = Ok r -> simp f' e = Ok r.
Proof. exact simp_fuel_irrelevant. Qed.
Print Assumptions C12_more_fuel_same_result.
Theorem C12_successful_runs_agree : forall f f' e r r', simp f e = Ok r -> simp f' e = Ok r' -> r = r'.
Proof. exact simp_deterministic_in_fuel. Qed.
Print Assumptions C12_successful_runs_agree.

(** the same for the symbolic evaluator (all of eval_expr: operators, conditions, slices, concatenations and every memory read path)
    and for the evaluation of an instruction's sources and destination addresses *)
Theorem C12_eval_more_fuel_same_result : forall f f' s e r, (f <= f')%nat -> eval_expr f s e = okx r -> eval_expr f' s e = okx r.
Proof. exact eval_expr_fuel_irrelevant. Qed.
Print Assumptions C12_eval_more_fuel_same_result.
Theorem C12_eval_successful_runs_agree : forall f f' s e r r', eval_expr f s e = okx r -> eval_expr f' s e = okx r' -> r = r'.
Proof. exact eval_expr_runs_agree. Qed.
Print Assumptions C12_eval_successful_runs_agree.
Theorem C12_instr_sources_more_fuel_same_result : forall f s affs r, get_instr_mod f s affs = okx r -> get_instr_mod (S f) s affs = okx r.
Proof. exact get_instr_mod_fuel_mono. Qed.
Print Assumptions C12_instr_sources_more_fuel_same_result.

Theorem C12_instruction_step_more_fuel_same_result : forall f s affs r, eval_instr f s affs = okx r -> eval_instr (S f) s affs = okx r.
Proof. exact eval_instr_fuel_mono. Qed.
Print Assumptions C12_instruction_step_more_fuel_same_result.

Example C12_pure_eval_of_bound_register :
  eval_expr 10 (Pool [(EId "eax" 32 true false, EInt false 32 5)] []) (EId "eax" 32 true false) = inl (Ok (EInt false 32 5)).
Proof. vm_compute. reflexivity. Qed.
