(** C12 — results depend only on explicit inputs (no hidden state between calls).  Property theorems only.
    The models of expr_simp, eval_expr and eval_instr are Gallina functions of their explicit arguments; the one extra parameter
    they carry, the fuel that stands for Python's recursion depth and loop count, is shown NOT to be a hidden input: once a
    result is returned, any larger fuel returns the same result, so two successful runs agree whatever their fuel.
    The property itself is about the implementation's hidden state (per-object memo flags, module-level caches, on-disk parser
    tables), which a pure model does not have: it is decided by the call-history differential of harness/p_c12.py, in which the
    implementation must agree with these functions inside arbitrary call histories.  The recorded defect (is_eval flag set on
    shared register objects) is exhibited below as a value the pure model computes and the flagged implementation does not. *)
From Coq Require Import ZArith List Bool String.
From Mx Require Import Expr Simp EvalAbs MachineProofs.
Import ListNotations.

Theorem C12_more_fuel_same_result : forall f f' e r, (f <= f')%nat -> simp f e = Ok r -> simp f' e = Ok r.
Proof. exact simp_fuel_irrelevant. Qed.
Print Assumptions C12_more_fuel_same_result.
Theorem C12_successful_runs_agree : forall f f' e r r', simp f e = Ok r -> simp f' e = Ok r' -> r = r'.
Proof. exact simp_deterministic_in_fuel. Qed.
Print Assumptions C12_successful_runs_agree.

Example C12_pure_eval_of_bound_register :
  eval_expr 10 (Pool [(EId "eax" 32 true false, EInt false 32 5)] []) (EId "eax" 32 true false) = inl (Ok (EInt false 32 5)).
Proof. vm_compute. reflexivity. Qed.
