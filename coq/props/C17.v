(** C17 — control-flow metadata agrees with the instruction's architectural behaviour. *)
From Coq Require Import ZArith List Bool String.
From Mx Require Import X86Types X86Dis X86Proofs X86Facts.
From MxGen Require Import X86Tables.
Import ListNotations.
Open Scope Z_scope.

(** for every row of the opcode table miasmx builds (regenerated from /repo on every run): conditional jumps,
    loop/jecxz and calls are block-ending with fall-through and destination; jmp/ret/retf/iret/hlt/ud2 are
    block-ending without fall-through; every other mnemonic (data, arithmetic, string, x87/SSE, int ...) is not
    block-ending; syscall/sysenter/sysexit/sysret are excluded *)
Theorem C17_flow_class_agree : forallb flow_ok (t_mnemos x86_tables) = true.
Proof. exact flow_class_agree. Qed.
Print Assumptions C17_flow_class_agree.

Theorem C17_flow_class_agree_forall : forall m, In m (t_mnemos x86_tables) -> flow_ok m = true.
Proof. apply forallb_forall. exact C17_flow_class_agree. Qed.
Print Assumptions C17_flow_class_agree_forall.

(** the fall-through address is offset + length *)
Theorem C17_nextflow : forall offset i, getnextflow offset i = offset + i_len i.
Proof. exact nextflow_is_offset_plus_len. Qed.
Print Assumptions C17_nextflow.

(** destination of a direct relative branch = offset + length + displacement, truncated to the operand size,
    for all offsets (incl. those near 2^32), lengths and displacements *)
Theorem C17_dst_arith : forall pfx mid name sz txt len opm adm offset disp ob,
  max_uint_bits opm = Some ob -> ob <= 32 -> name <> "jmpf"%string ->
  getdstflow offset (mkinstr pfx mid name [mkarg (Some AdF) sz [] (Some (32, wrapn 32 disp)) None txt] len opm adm)
  = DstVal ((offset + len + disp) mod 2 ^ ob).
Proof. exact dst_arith. Qed.
Print Assumptions C17_dst_arith.

(** non-vacuity: jg +5 at 2^32-16 *)
Example C17_nonvacuous :
  match dis x86_tables [127; 5] with
  | OSome i => getdstflow 4294967280 i = DstVal 4294967287 /\ flow_flags x86_tables i = (1, 1, 1)
  | _ => False end.
Proof. vm_compute. split; reflexivity. Qed.
