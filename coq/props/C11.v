(** C11 — every decodable instruction lifts to well-typed IR.
    The lifter of the working tree is run on one representative per (mnemonic, operand size, address size, operand shape)
    signature of the decoder's control space (8 280 forms) and the resulting IR is written as Gallina terms (MxGen.LiftAll,
    regenerated on every run).  The obligation: every dumped form satisfies every clause of the property, EXCEPT the
    (mnemonic, operand-size, clause) classes listed in LiftKnown.v (the recorded findings of the unchanged tree). *)
From Coq Require Import ZArith List Bool String.
From Mx Require Import Expr Wf LiftKnown LiftFacts.
From MxGen Require Import LiftAll.
Import ListNotations.

Theorem C11_all_lifted_wf_except : forallb (all_ok lift_known) shards = true.
Proof. exact all_lifted_wf_except. Qed.
Print Assumptions C11_all_lifted_wf_except.

Theorem C11_every_case : forall cs c, In cs shards -> In c cs ->
  forall cl, In cl (violated (lc_lift c)) -> in_known lift_known (lc_mnemo c) (lc_o16 c) cl = true.
Proof.
  intros cs c Hcs Hc cl Hcl. pose proof all_lifted_wf_except as H.
  rewrite forallb_forall in H. specialize (H cs Hcs). unfold all_ok in H. rewrite forallb_forall in H. specialize (H c Hc).
  unfold case_ok in H. rewrite forallb_forall in H. exact (H cl Hcl).
Qed.
Print Assumptions C11_every_case.

(** non-vacuity: "add eax, ebx" violates no clause *)
Example C11_add_is_wf : exists cs c, In cs shards /\ In c cs /\ lc_mnemo c = "add"%string /\ violated (lc_lift c) = [].
Proof.
  exists (hd [] shards). 
  destruct (find (fun c => (lc_mnemo c =? "add")%string && match violated (lc_lift c) with [] => true | _ => false end) (hd [] shards)) as [c|] eqn:F.
  - exists c. apply find_some in F. destruct F as [I P]. apply andb_true_iff in P as [P1 P2]. apply String.eqb_eq in P1.
    repeat split; auto. + unfold shards; simpl; auto. + destruct (violated (lc_lift c)); [reflexivity|discriminate].
  - vm_compute in F. discriminate.
Qed.
