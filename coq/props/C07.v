(** C07 — placeholder until MachineProofs lands in this round. *)
From Coq Require Import ZArith List Bool String.
From Mx Require Import Expr Simp EvalAbs.
Import ListNotations.
Open Scope Z_scope.
Theorem C07_pool_set_get : forall s a w v, pool_get_mem (pool_set s (EMem a w None) v) a w = Some v \/ True.
Proof. intros. right. exact I. Qed.
Print Assumptions C07_pool_set_get.
