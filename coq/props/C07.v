(** C07 — symbolic machine state equals sequential execution, incl. overlapping memory.  Property theorems only.
    Proved on the model (EvalAbs.v, tied to eval_abs.eval_instr / the pool by exact-state correspondence over store/load
    histories): (1) all assignments of one instruction — register AND memory destinations, sources and destination addresses —
    are evaluated in the state the instruction started in, one after the other, and only then bound in order; (2) the pool as a dictionary: a cell read
    back at the address and width it was written with returns the written value, cells at other addresses and all registers
    are untouched, and register writes leave memory untouched; (3) with C06: in a register-only state every value so computed
    denotes, in every concrete state, the value of its source under the substituted pre-state.
    (4) overlapping writes, geometry (SubMem.v): when a cell [b, b + bw) is written over a stored cell [a, a + aw) that it overlaps,
    the pieces substract_mems keeps of the old cell are, in order, the slices value[lo:hi] for bit ranges computed from aw, bw and
    the byte distance alone; those ranges are pairwise disjoint, lie inside the old cell and cover EXACTLY the bits the new cell does
    not overwrite; each kept piece has the width of its range and denotes that bit range of the old value; and the window scanned by
    get_mem_overlapping (offsets -7 .. w/8 - 1, with its distance filter) finds exactly the overlapping cells of width <= 64, and the
    model reports exactly the stored cells met in that window that pass the filter.
    (5) read paths (ReadPaths.v): a read at the address and width of a stored cell returns the stored value; a NARROWER read at the
    address of a stored cell returns an expression denoting the low bits of the stored value in every concrete state (through C05).
    NOT proved: that the ADDRESS expressions of the kept pieces evaluate to a + lo/8 (they go through eval_expr and the simplifier),
    the other read-back paths (the walk over consecutive cells for a wider read and the reconstruction from overlapping cells), rep-prefixed instructions, and the
    composition over instruction sequences — decided by the exhaustive (<= 2 stores + 1 load) and random history correspondence and
    the instruction-sequence runs of harness/p_c07.py. *)
From Coq Require Import ZArith List Bool String.
From Mx Require Import Expr Simp SimpProofs EvalAbs EvalAbsProofs MachineProofs SubMem ReadPaths PreState.
Import ListNotations.
Open Scope Z_scope.

Theorem C07_assignments_read_pre_state : forall fuel s affs acc0, forallb reg_aff affs = true ->
  fold_left (step_mod fuel s) affs (okx acc0) =
  (dox vs <- mapX (fun a => eval_expr fuel s (aff_src a)) affs;
   okx (fold_left (fun out dv => adict_set out (fst dv) (snd dv)) (combine (map aff_dst affs) vs) acc0)).
Proof. exact assignments_read_pre_state. Qed.
Print Assumptions C07_assignments_read_pre_state.
Theorem C07_get_instr_mod_is_that_fold : forall fuel s affs, get_instr_mod fuel s affs = fold_left (step_mod fuel s) affs (okx []).
Proof. exact get_instr_mod_fold. Qed.
Print Assumptions C07_get_instr_mod_is_that_fold.

Theorem C07_write_then_read_same_cell : forall s a w sg v, pool_get_mem (pool_set s (EMem a w sg) v) a w = Some v.
Proof. exact write_then_read_same_cell. Qed.
Print Assumptions C07_write_then_read_same_cell.
Theorem C07_write_keeps_other_cells : forall s a w sg v a2 w2, expr_eqb a a2 = false ->
  pool_get_mem (pool_set s (EMem a w sg) v) a2 w2 = pool_get_mem s a2 w2.
Proof. exact write_keeps_other_cells. Qed.
Print Assumptions C07_write_keeps_other_cells.
Theorem C07_write_keeps_registers : forall s a w sg v, pool_id (pool_set s (EMem a w sg) v) = pool_id s.
Proof. exact write_keeps_registers. Qed.
Print Assumptions C07_write_keeps_registers.
Theorem C07_register_write_then_read : forall s n w r t v, adict_get (pool_id (pool_set s (EId n w r t) v)) (EId n w r t) = Some v.
Proof. exact register_write_then_read. Qed.
Print Assumptions C07_register_write_then_read.

(** each evaluated source denotes its value under the substituted pre-state (C06 applied to one source) *)
Theorem C07_source_value_in_pre_state : forall (Sig : string -> Z * bool * bool) (s : pool),
  pool_mem s = [] -> Forall (binding_ok Sig) (pool_id s) ->
  forall fuel src v, wf false (IdQ Sig) src = true -> eval_expr fuel s src = inl (Ok v) ->
  forall rho mu iota, eval rho mu iota v = eval (rho' s rho mu iota) mu iota src.
Proof. intros Sig s Hm Hp fuel src v W H. apply (eval_expr_is_substitution Sig s Hm Hp fuel src v W H). Qed.
Print Assumptions C07_source_value_in_pre_state.

(** the same with memory destinations: every source AND every destination address is evaluated in the state the instruction started in *)
Theorem C07_all_assignments_read_pre_state : forall fuel s affs, forallb aff_ok affs = true ->
  get_instr_mod fuel s affs = (dox kvs <- mapX (eval_aff fuel s) affs; okx (fold_left (fun out kv => adict_set out (fst kv) (snd kv)) kvs [])).
Proof. exact get_instr_mod_reads_pre_state. Qed.
Print Assumptions C07_all_assignments_read_pre_state.
(** eax := 8 ; [eax] := ebx  in one instruction, started with eax = 4096: the store goes to 4096, not to 8 *)
Example C07_store_address_uses_pre_state :
  let eax := EId "eax" 32 true false in let ebx := EId "ebx" 32 true false in
  get_instr_mod 20 (Pool [(eax, EInt false 32 4096)] []) [EAff eax (EInt false 32 8); EAff (EMem eax 32 None) ebx]
  = inl (Ok [(eax, EInt false 32 8); (EMem (EInt false 32 4096) 32 None, ebx)]).
Proof. vm_compute. reflexivity. Qed.

(** overlapping writes: what remains of the old cell *)
Theorem C07_remaining_pieces_are_the_geometry : forall fuel s aaddr aw sg cellv baddr bw pieces,
  substract_mems fuel s (EMem aaddr aw sg) cellv baddr bw = okx pieces ->
  exists dv sgd wd, (dox y <- eval_expr fuel s (EOp "-" [baddr; aaddr]); lift (simpF y)) = okx (EInt sgd wd dv) /\
    map snd pieces = map (fun p => getitem cellv (fst p) (snd p)) (sub_geom aw bw (int32_of dv)).
Proof. exact substract_mems_geometry. Qed.
Print Assumptions C07_remaining_pieces_are_the_geometry.
Theorem C07_remaining_ranges_partition_the_unwritten_bits : forall aw bw d, 0 < aw -> 0 < bw -> - bw < d * 8 < aw ->
  (forall p, In p (sub_geom aw bw d) -> 0 <= fst p < snd p /\ snd p <= aw) /\
  (forall i, 0 <= i < aw -> (covered (sub_geom aw bw d) i <-> ~ (d * 8 <= i < d * 8 + bw))) /\
  (forall p q, In p (sub_geom aw bw d) -> In q (sub_geom aw bw d) -> p <> q -> snd p <= fst q \/ snd q <= fst p).
Proof. exact sub_geom_partition. Qed.
Print Assumptions C07_remaining_ranges_partition_the_unwritten_bits.
Theorem C07_remaining_pieces_widths : forall fuel s aaddr aw sg cellv baddr bw pieces dv sgd wd,
  substract_mems fuel s (EMem aaddr aw sg) cellv baddr bw = okx pieces ->
  (dox y <- eval_expr fuel s (EOp "-" [baddr; aaddr]); lift (simpF y)) = okx (EInt sgd wd dv) ->
  size cellv = aw -> 0 < aw -> 0 < bw -> - bw < int32_of dv * 8 < aw ->
  map (fun p => size (fst p)) pieces = map (fun p => snd p - fst p) (sub_geom aw bw (int32_of dv)).
Proof. exact substract_mems_widths. Qed.
Print Assumptions C07_remaining_pieces_widths.
Theorem C07_piece_denotes_its_bit_range : forall rho mu iota cellv lo hi, 0 <= lo <= hi -> hi <= size cellv ->
  eval rho mu iota (getitem cellv lo hi) = (Z.shiftr (eval rho mu iota cellv) lo) mod 2 ^ (hi - lo).
Proof. exact getitem_value. Qed.
Print Assumptions C07_piece_denotes_its_bit_range.
Theorem C07_overlap_window_is_exact : forall w cw i, 0 < w -> w mod 8 = 0 -> 0 < cw <= 64 ->
  (In i (range_from (-7) (Z.to_nat (7 + w / 8))) /\ (8 * (- i) >=? cw) = false) <-> (i * 8 < w /\ 0 < i * 8 + cw).
Proof. exact overlap_window_exact. Qed.
Print Assumptions C07_overlap_window_is_exact.
Theorem C07_overlapping_cells_reported_exactly : forall fuel s a_val w ov, mem_overlapping fuel s a_val w = okx ov ->
  forall i cell v, In (i, (cell, v)) ov <-> (In i (range_from (-7) (Z.to_nat (7 + w / 8))) /\ exists x, reported fuel s a_val i x cell v).
Proof. exact mem_overlapping_exact. Qed.
Print Assumptions C07_overlapping_cells_reported_exactly.
(** a byte written into the middle of a stored dword leaves its low byte and its high half *)
Example C07_geometry_of_a_byte_in_a_dword : sub_geom 32 8 1 = [(0, 8); (16, 32)].
Proof. reflexivity. Qed.
(** and the model does so on a concrete pool: dword at 0x1000, byte written at 0x1001 *)
Example C07_substract_concrete :
  let cell := EMem (EInt false 32 4096) 32 None in let v := EId "v" 32 true false in
  match substract_mems 40 (Pool [] [(EInt false 32 4096, (cell, v))]) cell v (EInt false 32 4097) 8 with
  | inl (Ok ps) => map snd ps = [getitem v 0 8; getitem v 16 32] /\ map (fun p => size (fst p)) ps = [8; 16]
  | _ => False
  end.
Proof. vm_compute. split; reflexivity. Qed.

(** read paths *)
Theorem C07_read_hits_the_stored_cell : forall f s addr w sg addr1 w1 sg1 a_val v,
  visitM simpF (EMem addr w sg) = Ok (EMem addr1 w1 sg1) -> evs f s addr1 = okx a_val -> pool_get_mem s a_val w1 = Some v ->
  eval_expr (S f) s (EMem addr w sg) = okx v.
Proof. intros f s addr w sg addr1 w1 sg1 a_val v Hv Ha Hit. exact (read_exact_hit f s addr w sg addr1 w1 sg1 a_val Hv Ha v Hit). Qed.
Print Assumptions C07_read_hits_the_stored_cell.
Theorem C07_narrower_read_is_the_low_part : forall ac IdQ f s addr w sg addr1 w1 sg1 a_val cell cellv r,
  visitM simpF (EMem addr w sg) = Ok (EMem addr1 w1 sg1) -> evs f s addr1 = okx a_val ->
  pool_get_mem s a_val w1 = None -> adict_get (pool_mem s) a_val = Some (cell, cellv) -> (w1 >? size cell) = false ->
  wf ac IdQ cellv = true -> 0 < w1 <= size cellv -> eval_expr (S f) s (EMem addr w sg) = okx r ->
  wf ac IdQ r = true /\ size r = w1 /\ forall rho mu iota, eval rho mu iota r = (eval rho mu iota cellv) mod 2 ^ w1.
Proof. intros ac IdQ f s addr w sg addr1 w1 sg1 a_val cell cellv r Hv Ha. exact (read_low_part ac IdQ f s addr w sg addr1 w1 sg1 a_val Hv Ha cell cellv r). Qed.
Print Assumptions C07_narrower_read_is_the_low_part.
(** the hypotheses are met by a 16-bit read at the address of a stored dword *)
Example C07_narrower_read_hypotheses_met :
  let a := EInt false 32 4096 in let cell := EMem a 32 None in let v := EId "v" 32 true false in let s := Pool [] [(a, (cell, v))] in
  visitM simpF (EMem a 16 None) = Ok (EMem a 16 None) /\ evs 20 s a = okx a /\ pool_get_mem s a 16 = None /\
  adict_get (pool_mem s) a = Some (cell, v) /\ (16 >? size cell) = false /\ eval_expr 21 s (EMem a 16 None) = okx (ESlice v 0 16).
Proof. vm_compute. repeat split; reflexivity. Qed.

(** non-vacuity: xchg-like pair  eax := ebx ; ebx := eax  on  eax = 1, ebx = 2  swaps (both sources read the pre-state) *)
Example C07_nonvacuous :
  let eax := EId "eax" 32 true false in let ebx := EId "ebx" 32 true false in
  get_instr_mod 20 (Pool [(eax, EInt false 32 1); (ebx, EInt false 32 2)] []) [EAff eax ebx; EAff ebx eax]
  = inl (Ok [(eax, EInt false 32 2); (ebx, EInt false 32 1)]).
Proof. vm_compute. reflexivity. Qed.
