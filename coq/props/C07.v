(** C07 — symbolic machine state equals sequential execution, incl. overlapping memory.  Property theorems only.
    Proved on the model (EvalAbs.v, tied to eval_abs.eval_instr / the pool by exact-state correspondence over store/load
    histories): (1) all assignments of one instruction with register destinations evaluate their sources in the state the
    instruction started in, one after the other, and only then bind them in order; (2) the pool as a dictionary: a cell read
    back at the address and width it was written with returns the written value, cells at other addresses and all registers
    are untouched, and register writes leave memory untouched; (3) with C06: in a register-only state every value so computed
    denotes, in every concrete state, the value of its source under the substituted pre-state.
    NOT proved: read-backs that partially overlap earlier writes of other widths (substract_mems / mem_overlapping), rep-prefixed
    instructions, and the composition over instruction sequences — decided by the exhaustive (<= 2 stores + 1 load) and random
    history correspondence and the instruction-sequence runs of harness/p_c07.py. *)
From Coq Require Import ZArith List Bool String.
From Mx Require Import Expr Simp SimpProofs EvalAbs EvalAbsProofs MachineProofs.
Import ListNotations.
Open Scope Z_scope.

Theorem C07_assignments_read_pre_state : forall fuel s affs acc0, forallb reg_aff affs = true ->
  fold_left (step_mod fuel s) affs (okx acc0) =
  (dox vs <- mapX (fun a => eval_expr fuel s (aff_src a)) affs;
   okx (fold_left (fun out dv => adict_set out (fst dv) (snd dv)) (combine (map aff_dst affs) vs) acc0)).
Proof. exact assignments_read_pre_state. Qed.
Print Assumptions C07_assignments_read_pre_state.
Theorem C07_get_instr_mod_is_that_fold : forall fuel s affs, get_instr_mod fuel s affs = fold_left (step_mod fuel s) affs (okx []).
Proof. exact get_instr_mod_fold. Qed.
Print Assumptions C07_get_instr_mod_is_that_fold.

Theorem C07_write_then_read_same_cell : forall s a w sg v, pool_get_mem (pool_set s (EMem a w sg) v) a w = Some v.
Proof. exact write_then_read_same_cell. Qed.
Print Assumptions C07_write_then_read_same_cell.
Theorem C07_write_keeps_other_cells : forall s a w sg v a2 w2, expr_eqb a a2 = false ->
  pool_get_mem (pool_set s (EMem a w sg) v) a2 w2 = pool_get_mem s a2 w2.
Proof. exact write_keeps_other_cells. Qed.
Print Assumptions C07_write_keeps_other_cells.
Theorem C07_write_keeps_registers : forall s a w sg v, pool_id (pool_set s (EMem a w sg) v) = pool_id s.
Proof. exact write_keeps_registers. Qed.
Print Assumptions C07_write_keeps_registers.
Theorem C07_register_write_then_read : forall s n w r t v, adict_get (pool_id (pool_set s (EId n w r t) v)) (EId n w r t) = Some v.
Proof. exact register_write_then_read. Qed.
Print Assumptions C07_register_write_then_read.

(** each evaluated source denotes its value under the substituted pre-state (C06 applied to one source) *)
Theorem C07_source_value_in_pre_state : forall (Sig : string -> Z * bool * bool) (s : pool),
  pool_mem s = [] -> Forall (binding_ok Sig) (pool_id s) ->
  forall fuel src v, wf false (IdQ Sig) src = true -> eval_expr fuel s src = inl (Ok v) ->
  forall rho mu iota, eval rho mu iota v = eval (rho' s rho mu iota) mu iota src.
Proof. intros Sig s Hm Hp fuel src v W H. apply (eval_expr_is_substitution Sig s Hm Hp fuel src v W H). Qed.
Print Assumptions C07_source_value_in_pre_state.

(** non-vacuity: xchg-like pair  eax := ebx ; ebx := eax  on  eax = 1, ebx = 2  swaps (both sources read the pre-state) *)
Example C07_nonvacuous :
  let eax := EId "eax" 32 true false in let ebx := EId "ebx" 32 true false in
  get_instr_mod 20 (Pool [(eax, EInt false 32 1); (ebx, EInt false 32 2)] []) [EAff eax ebx; EAff ebx eax]
  = inl (Ok [(eax, EInt false 32 2); (ebx, EInt false 32 1)]).
Proof. vm_compute. reflexivity. Qed.
