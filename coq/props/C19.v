(** C19 — equivalent spellings of an assembly line assemble identically.  Property theorems only.
    Proved here (the operand term algebra of the Intel parser, model Operand.v tied by exact-output correspondence):
    numbers congruent modulo 2^32 normalise to the same operand value (16 / 0x10 / 0X10, -1 / 0xFFFFFFFF); every coefficient
    (register, displacement, scale) of a sum, difference or constant multiple of operand dictionaries is the sum, difference or
    multiple of the coefficients, hence the order of the terms inside a memory operand does not change the dictionary's
    numeric content.  NOT proved: the lexers/grammars (PLY), the 'txt' order memo, the AT&T grammar and the path from the
    dictionary to the candidate set; for those the candidate SETS of respelled lines are compared on the implementation
    (harness/p_c19.py). *)
From Coq Require Import ZArith List Bool.
From Mx Require Import Operand OperandProofs.
Import ListNotations.
Open Scope Z_scope.

Theorem C19_number_spellings : forall n m, n mod 2 ^ 32 = m mod 2 ^ 32 -> norm32 n = norm32 m.
Proof. exact norm32_congr. Qed.
Print Assumptions C19_number_spellings.
Theorem C19_number_value : forall n, (norm32 n) mod 2 ^ 32 = n mod 2 ^ 32 /\ - 2 ^ 31 <= norm32 n < 2 ^ 31.
Proof. exact norm32_value. Qed.
Print Assumptions C19_number_value.
Theorem C19_sum_of_terms : forall a b k, NoDup (map fst b) -> coef (dict_add a b) k = coef a k + coef b k.
Proof. exact dict_add_coef. Qed.
Print Assumptions C19_sum_of_terms.
Theorem C19_difference_of_terms : forall a b k, NoDup (map fst b) -> coef (dict_sub a b) k = coef a k - coef b k.
Proof. exact dict_sub_coef. Qed.
Print Assumptions C19_difference_of_terms.
Theorem C19_scaled_term : forall c b k, coef (dict_scale c b) k = c * coef b k.
Proof. exact dict_scale_coef. Qed.
Print Assumptions C19_scaled_term.
Theorem C19_term_order_irrelevant : forall a b k, NoDup (map fst a) -> NoDup (map fst b) -> coef (dict_add a b) k = coef (dict_add b a) k.
Proof. exact dict_add_comm. Qed.
Print Assumptions C19_term_order_irrelevant.

(** non-vacuity: [ebx + esi*2 + 4] built in two orders (keys: 3 = ebx, 6 = esi, 1000 = displacement) *)
Example C19_nonvacuous :
  dict_add (dict_add [(3, 1)] (dict_scale 2 [(6, 1)])) [(1000, 4)] = [(3, 1); (6, 2); (1000, 4)] /\
  dict_add (dict_add [(1000, 4)] (dict_scale 2 [(6, 1)])) [(3, 1)] = [(1000, 4); (6, 2); (3, 1)] /\
  norm32 4294967295 = -1 /\ norm32 (-1) = -1 /\ dict_sub [(3, 1); (1000, 4)] [(1000, 4)] = [(3, 1)].
Proof. vm_compute. repeat split; reflexivity. Qed.
