(** C19 — placeholder: the codec theorems shared by the assembler properties are in Asm.v / props/C02.v. *)
From Coq Require Import ZArith Lia.
Open Scope Z_scope.
Theorem C19_placeholder : forall v : Z, v mod 256 = v mod 256.
Proof. reflexivity. Qed.
Print Assumptions C19_placeholder.
