(** C01 — x86 decoding agrees with IA-32.  Kernel-checked part: the ModRM/SIB tables that miasmx builds
    (regenerated from /repo on every run) agree with the SDM addressing forms for ALL 256 x 256 ModRM/SIB
    bytes (32-bit) and all 256 ModRM bytes (16-bit): base, index, scale, displacement kind, register form. *)
From Coq Require Import ZArith List Bool String.
From Mx Require Import X86Types X86Dis X86Ref X86Facts.
From MxGen Require Import X86Tables.
Import ListNotations.
Open Scope Z_scope.

Theorem C01_modrm32_agree : modrm32_ok x86_tables = true.
Proof. exact modrm32_agree. Qed.
Print Assumptions C01_modrm32_agree.

Theorem C01_modrm16_agree : modrm16_ok x86_tables = true.
Proof. exact modrm16_agree. Qed.
Print Assumptions C01_modrm16_agree.

Theorem C01_modrm32_agree_forall : forall m s, In m bytes256 -> In s bytes256 ->
  exists a, lookup32 x86_tables m s = Some a /\ afs_agrees a (sdm_modrm32 m s) = true.
Proof. exact modrm32_agree_forall. Qed.
Print Assumptions C01_modrm32_agree_forall.

(** non-vacuity: [esp+edi*8] *)
Example C01_sib_example : sdm_modrm32 4 252 = (true, None, [(4, 1); (7, 8)]).
Proof. vm_compute. reflexivity. Qed.
