(** C14 — fixed-width integers implement arithmetic modulo 2^n.
    Property theorems only; each is closed by [exact] of a lemma from Mx.ModIntProofs. *)
From Coq Require Import ZArith List Bool Lia.
From Mx Require Import ModInt ModIntProofs.
Open Scope Z_scope.

(** the constructor reduces into the range, to the unique representative of the residue class *)
Theorem C14_norm_in_range : forall c z, wf_cls c -> in_range c (norm c z).
Proof. exact norm_in_range. Qed.
Print Assumptions C14_norm_in_range.

Theorem C14_norm_mod : forall c z, wf_cls c -> (norm c z) mod limit c = z mod limit c.
Proof. exact norm_mod. Qed.
Print Assumptions C14_norm_mod.

Theorem C14_norm_unique : forall c a z, wf_cls c -> in_range c a ->
  a mod limit c = z mod limit c -> a = norm c z.
Proof. exact norm_unique. Qed.
Print Assumptions C14_norm_unique.

(** every binary operator, direct or reflected [+ - * & | ^ << >> % pow], for all widths, signs and
    all operand values: the result is of class [result_class] (wider of two classes, own class with
    a plain int) and holds THE in-range value congruent to the exact result modulo 2^w *)
Theorem C14_binop_exact : forall op c v y r,
  wf_cls c -> operand_wf y -> op <> RPow ->
  exact op v (operand_val y) = inl (Some r) ->
  exists v', binop_apply op c v y = RMI (result_class c y) v' /\
             in_range (result_class c y) v' /\
             v' mod limit (result_class c y) = r mod limit (result_class c y) /\
             (forall u, in_range (result_class c y) u ->
                        u mod limit (result_class c y) = r mod limit (result_class c y) -> u = v').
Proof. exact binop_exact. Qed.
Print Assumptions C14_binop_exact.

Theorem C14_binop_error : forall op c v y e,
  exact op v (operand_val y) = inr e -> binop_apply op c v y = RErr e.
Proof. exact binop_error. Qed.
Print Assumptions C14_binop_error.

Theorem C14_mixed_widths_wider : forall c c2 v2,
  c_w (result_class c (MI c2 v2)) = Z.max (c_w c) (c_w c2).
Proof. exact mixed_widths_wider. Qed.
Print Assumptions C14_mixed_widths_wider.

Theorem C14_mixed_int_keeps_class : forall c z, result_class c (PY z) = c.
Proof. exact mixed_int_keeps_class. Qed.
Print Assumptions C14_mixed_int_keeps_class.

Theorem C14_reflected_exact : forall op rop a b, reflect op = Some rop ->
  exact rop a b = exact op b a.
Proof. exact reflected_exact. Qed.
Print Assumptions C14_reflected_exact.

Theorem C14_reflected_ring_agree : forall op rop c v z, wf_cls c ->
  (op = Add \/ op = Sub \/ op = Mul) -> reflect op = Some rop ->
  binop_apply rop c v (PY z) = binop_apply op c (norm c z) (MI c v).
Proof. exact reflected_ring_agree. Qed.
Print Assumptions C14_reflected_ring_agree.

Theorem C14_unop_exact : forall op c v, wf_cls c -> op <> ToInt ->
  let r := match op with Inv => Z.lnot v | Neg => - v | Abs => Z.abs v | ToInt => v end in
  exists v', unop_apply op c v = RMI c v' /\ in_range c v' /\ v' mod limit c = r mod limit c.
Proof. exact unop_exact. Qed.
Print Assumptions C14_unop_exact.

Theorem C14_cmp_is_Z_cmp : forall op c v y,
  cmp_apply op c v y = RBool (match op with
    | CEq => v =? operand_val y | CNe => negb (v =? operand_val y)
    | CLt => v <? operand_val y | CLe => v <=? operand_val y
    | CGt => v >? operand_val y | CGe => v >=? operand_val y end).
Proof. exact cmp_is_Z_cmp. Qed.
Print Assumptions C14_cmp_is_Z_cmp.

Theorem C14_eq_hash : forall (h : Z -> Z) c v y,
  cmp_apply CEq c v y = RBool true -> hash_apply h v = hash_apply h (operand_val y).
Proof. exact eq_hash. Qed.
Print Assumptions C14_eq_hash.

(** [y ** x] with a plain-int y returns a plain Python int, outside the fixed-width type
    (known finding; the library's own simplifier relies on it) *)
Theorem C14_rpow_plain_int_refuted :
  exists c v z, wf_cls c /\ in_range c v /\
    forall v', binop_apply RPow c v (PY z) <> RMI c v'.
Proof.
  exists (Cls false 8), 3, 2. split; [unfold wf_cls; simpl; lia|]. split; [apply in_rangeb_spec; reflexivity|].
  intros v'. vm_compute. congruence.
Qed.
Print Assumptions C14_rpow_plain_int_refuted.
