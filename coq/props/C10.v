(** C10 — decoder (and text layer) totality.  Property theorems only.
    Proved here, for the decoder model X86Dis.v over ANY tables (in particular the tables regenerated from /repo on every run),
    every byte string and every continuation:
      no over-read   — an accepted instruction of length L is determined by the first L bytes: replacing everything after them
                       by any other bytes (or nothing) gives the same instruction, and 0 <= L <= the number of bytes supplied;
      truncation     — every proper prefix of those L bytes is rejected with None: never an exception, never another instruction.
    Offset invariance holds by construction (the model is a function of the bytes alone; the implementation is run at several
    stream offsets by the correspondence).  Totality of the model is Coq's: dis returns an instruction, None, or one of the
    enumerated exception classes; which control strings reach an exception class is decided by enumeration of the control-byte
    space against the implementation (harness/p_c10.py), as are rendering and assembler text totality. *)
From Coq Require Import ZArith List Bool String.
From Mx Require Import X86Types X86Dis X86DisProofs.
Import ListNotations.
Open Scope Z_scope.

Theorem C10_no_over_read : forall T bytes i, dis T bytes = OSome i ->
  0 <= i_len i <= Z.of_nat (List.length bytes) /\
  forall e, dis T (firstn (Z.to_nat (i_len i)) bytes ++ e) = OSome i.
Proof. exact dis_no_over_read. Qed.
Print Assumptions C10_no_over_read.

Theorem C10_truncation_gives_none : forall T bytes i, dis T bytes = OSome i ->
  forall n, (n < Z.to_nat (i_len i))%nat -> dis T (firstn n bytes) = ONone.
Proof. exact dis_truncation. Qed.
Print Assumptions C10_truncation_gives_none.

(** the stream discipline behind both: whatever the decoder accepts, it consumed an initial segment u, returns the same result on
    u followed by anything, and None on every proper prefix of u *)
Theorem C10_reads_a_prefix : forall T o bytes i, dis_core T o bytes = DOk i ->
  exists u r, bytes = u ++ r /\ i_len i = Z.of_nat (List.length u) /\
    (forall e, dis_core T o (u ++ e) = DOk i) /\ (forall p q, u = p ++ q -> q <> [] -> dis_core T o p = DNone).
Proof. exact dis_reads_a_prefix. Qed.
Print Assumptions C10_reads_a_prefix.

From MxGen Require Import X86Tables.
(** non-vacuity on the regenerated tables: add eax, [ebx+esi*4+0x11223344] (7 bytes) followed by junk; its 6-byte prefix *)
Example C10_nonvacuous :
  (match dis x86_tables [3; 132; 179; 68; 51; 34; 17; 204; 204] with OSome i => i_len i | _ => -1 end) = 7 /\
  dis x86_tables [3; 132; 179; 68; 51; 34] = ONone.
Proof. vm_compute. split; reflexivity. Qed.
