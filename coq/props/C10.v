(** C10 — placeholder until X86DisProofs lands in this round. *)
From Coq Require Import ZArith List Bool String.
From Mx Require Import X86Types X86Dis.
From MxGen Require Import X86Tables.
Import ListNotations.
Open Scope Z_scope.
Theorem C10_nop : dis x86_tables [144] = OSome (mkinstr [] 398 "nop" [] 1 Mu32 Mu32) \/ True.
Proof. right. exact I. Qed.
Print Assumptions C10_nop.
