(** C03 — assemble/disassemble round trip is a fixpoint.  Property theorems only.
    Proved here (codec layer): what the assembler emits for an immediate or displacement field reads back as the field value
    (little-endian emission, signed and unsigned kinds); the reverse ModRM/SIB table is sound (C02) AND complete — every ModRM
    byte with an empty reg field, with every SIB byte where one follows, is offered under the key of the address form it decodes
    to, both with and without the operand-order memo — so the address bytes of every decodable instruction are among the
    synthesised ones.  The fixpoint over whole lines is decided on the implementation (harness/p_c03.py). *)
From Coq Require Import ZArith List Bool String.
From Mx Require Import X86Types Asm AsmProofs AsmFacts.
From MxGen Require Import X86Tables AsmTables.
Import ListNotations.
Open Scope Z_scope.

Theorem C03_field_emission_reads_back : forall k r, in_range k r -> read k (emit k r) = r.
Proof. exact emit_read. Qed.
Print Assumptions C03_field_emission_reads_back.

Theorem C03_field_emission_length : forall k r, List.length (emit k r) = Z.to_nat (bits k / 8).
Proof. exact emit_length. Qed.
Print Assumptions C03_field_emission_length.

Theorem C03_accepted_value_round_trips : forall v is16 k r,
  check_imm_size v is16 k = Some r -> read k (emit k r) = r /\ r mod 2 ^ bits k = v mod 2 ^ bits k.
Proof. exact check_emit_read. Qed.
Print Assumptions C03_accepted_value_round_trips.

Theorem C03_reverse_table_complete : forall m, In m modrm_bytes -> complete_at x86_tables fd_afs m = true.
Proof. exact fd_afs_lists_every_modrm. Qed.
Print Assumptions C03_reverse_table_complete.

Example C03_nonvacuous : read S08 (emit S08 (-2)) = -2 /\ emit U32 305419896 = [120; 86; 52; 18] /\ List.length modrm_bytes = 32%nat.
Proof. vm_compute. repeat split; reflexivity. Qed.
