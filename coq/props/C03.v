(** C03 — placeholder: the codec round-trip theorems (immediate fitting, little-endian emission, ModRM/SIB reverse table) land in Asm.v. *)
From Coq Require Import ZArith Lia.
Open Scope Z_scope.
Theorem C03_placeholder : forall v : Z, v mod 256 = v mod 256.
Proof. reflexivity. Qed.
Print Assumptions C03_placeholder.
