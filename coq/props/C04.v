(** C04 — placeholder until the flag lemmas and semantic mirrors land in this round. *)
From Coq Require Import ZArith List Bool String Lia.
From Mx Require Import Expr.
Import ListNotations.
Open Scope Z_scope.
Theorem C04_wrap_add : forall w a b, 0 < w -> wrap w (wrap w a + wrap w b) = wrap w (a + b).
Proof. intros. unfold wrap. rewrite <- Z.add_mod by (apply Z.pow_nonzero; lia || apply Z.lt_le_incl; assumption). reflexivity. Qed.
Print Assumptions C04_wrap_add.
