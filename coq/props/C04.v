(** C04 — lifted x86 semantics match the processor on the integer core.  Property theorems only.
    What is proved (arithmetic / logic group: add adc sub sbb cmp and or xor test inc dec neg, every operand form and width):
      (tie)     every such form of the lifted dump regenerated from /repo (one per mnemonic x operand-size x operand-shape
                signature) whose operands have equal width IS, node for node, the mirror of Sem.v applied to its own operands;
      (meaning) for ALL operand expressions of equal width n, all register / flag / memory valuations and all interpretations
                of uninterpreted operators: the value is the n-bit sum / difference / bitwise result (with carry-in for adc/sbb),
                cf is the carry / borrow out, of is the signed overflow, zf / sf / pf are those of the result.
    af is refuted (known finding: the formula is pinned by tests/test_emul.py).  Everything else of the integer core (shifts,
    rotates, mul/div, string, stack, control transfer, setcc/cmovcc ...) is decided by evaluating the regenerated IR with the
    extracted Expr.eval against the SDM reference (harness/p_c04.py), not by a theorem. *)
From Coq Require Import ZArith List Bool String.
From Mx Require Import Expr Wf Sem SemProofs SemFacts.
From MxGen Require Import LiftAll.
Import ListNotations.
Open Scope Z_scope.

Theorem C04_alu_forms_are_the_mirror : forall sh c, In sh shards -> In c sh -> tie_ok c = true.
Proof. exact alu_forms_tied_lifted. Qed.
Print Assumptions C04_alu_forms_are_the_mirror.

Theorem C04_tied_form_means_mirror : forall k l, is_mirror k l = true ->
  exists a b, operand_ok a = true /\ operand_ok b = true /\ size a = size b /\ (size a = 8 \/ size a = 16 \/ size a = 32) /\
              forall rho mu iota, map (eval rho mu iota) l = map (eval rho mu iota) (mirror k a b).
Proof. exact is_mirror_sound. Qed.
Print Assumptions C04_tied_form_means_mirror.

Theorem C04_add_adc : forall rho mu iota a b, operand_ok a = true -> operand_ok b = true -> size a = size b ->
  forall k cin_, (k = Add /\ cin_ = 0) \/ (k = Adc /\ cin_ = ci rho) ->
  let n := size a in let x := eval rho mu iota a in let y := eval rho mu iota b in let c := alu_val k a b in
  eval rho mu iota c = (x + y + cin_) mod 2 ^ n /\
  eval rho mu iota (add_cf_src a b c) = Z.b2z (cf_add n x y cin_) /\
  eval rho mu iota (add_of_src a b c) = Z.b2z (of_add n x y cin_).
Proof. exact add_flags. Qed.
Print Assumptions C04_add_adc.

Theorem C04_sub_sbb_cmp : forall rho mu iota a b, operand_ok a = true -> operand_ok b = true -> size a = size b ->
  forall k cin_, ((k = Sub \/ k = Cmp) /\ cin_ = 0) \/ (k = Sbb /\ cin_ = ci rho) ->
  let n := size a in let x := eval rho mu iota a in let y := eval rho mu iota b in let c := alu_val k a b in
  eval rho mu iota c = (x - y - cin_) mod 2 ^ n /\
  eval rho mu iota (sub_cf_src a b c) = Z.b2z (cf_sub n x y cin_) /\
  eval rho mu iota (sub_of_src a b c) = Z.b2z (of_sub n x y cin_).
Proof. exact sub_flags. Qed.
Print Assumptions C04_sub_sbb_cmp.

Theorem C04_logic : forall rho mu iota a b, operand_ok a = true -> operand_ok b = true -> size a = size b ->
  let x := eval rho mu iota a in let y := eval rho mu iota b in
  eval rho mu iota (alu_val And a b) = Z.land x y /\ eval rho mu iota (alu_val Test a b) = Z.land x y /\
  eval rho mu iota (alu_val Or a b) = Z.lor x y /\ eval rho mu iota (alu_val Xor a b) = Z.lxor x y.
Proof. exact logic_vals. Qed.
Print Assumptions C04_logic.

Theorem C04_zf_sf_pf : forall rho mu iota a b, operand_ok a = true -> operand_ok b = true -> size a = size b -> forall k,
  let c := alu_val k a b in
  eval rho mu iota (ECond c (i1 0) (i1 1)) = (if eval rho mu iota c =? 0 then 1 else 0) /\
  eval rho mu iota (msb c) = Z.b2z (Z.testbit (eval rho mu iota c) (size a - 1)) /\
  eval rho mu iota (EOp "parity" [c]) = parity8 (eval rho mu iota c).
Proof. intros rho mu iota a b Ha Hb _ k. exact (znp_flags rho mu iota a b Ha Hb k). Qed.
Print Assumptions C04_zf_sf_pf.

(** inc, dec, neg: every regenerated form is the mirror (tie above); value and flags for all operands and states *)
Theorem C04_unary_form_means_mirror : forall k l, is_mirror_u k l = true ->
  exists a, operand_ok a = true /\ (size a = 8 \/ size a = 16 \/ size a = 32) /\
            forall rho mu iota, map (eval rho mu iota) l = map (eval rho mu iota) (mirror_u k a).
Proof. exact is_mirror_u_sound. Qed.
Print Assumptions C04_unary_form_means_mirror.
Theorem C04_inc : forall rho mu iota a, operand_ok a = true -> (size a = 8 \/ size a = 16 \/ size a = 32) ->
  let c := alu_val Add a (una_const Inc a) in
  eval rho mu iota c = (eval rho mu iota a + 1) mod 2 ^ size a /\
  eval rho mu iota (add_of_src a (una_const Inc a) c) = Z.b2z (of_add (size a) (eval rho mu iota a) 1 0).
Proof. exact inc_correct. Qed.
Print Assumptions C04_inc.
Theorem C04_dec : forall rho mu iota a, operand_ok a = true -> (size a = 8 \/ size a = 16 \/ size a = 32) ->
  let c := alu_val Add a (una_const Dec a) in
  eval rho mu iota c = (eval rho mu iota a - 1) mod 2 ^ size a /\
  eval rho mu iota (add_of_src a (una_const Dec a) c) = Z.b2z (of_sub (size a) (eval rho mu iota a) 1 0).
Proof. exact dec_correct. Qed.
Print Assumptions C04_dec.
Theorem C04_neg : forall rho mu iota a, operand_ok a = true -> (size a = 8 \/ size a = 16 \/ size a = 32) ->
  let c := alu_val Sub (una_const Neg a) a in
  eval rho mu iota c = (- eval rho mu iota a) mod 2 ^ size a /\
  eval rho mu iota (sub_cf_src (una_const Neg a) a c) = Z.b2z (negb (eval rho mu iota a =? 0)) /\
  eval rho mu iota (sub_of_src (una_const Neg a) a c) = Z.b2z (of_sub (size a) 0 (eval rho mu iota a) 0).
Proof. exact neg_correct. Qed.
Print Assumptions C04_neg.

(** the destination: an assignment to bits [lo, hi) of a register (al, ah, ax ...) is rewritten by ExprAff into an assignment
    of the whole register whose value has exactly those bits replaced by the source and every other bit unchanged *)
Theorem C04_subregister_write_back : forall rho mu iota nm w rg tm lo hi src, 0 <= lo -> lo < hi -> hi <= w ->
  match mk_aff (ESlice (EId nm w rg tm) lo hi) src with
  | EAff d s => d = EId nm w rg tm /\
      forall i, 0 <= i ->
        Z.testbit (eval rho mu iota s) i = if (lo <=? i) && (i <? hi) then Z.testbit (eval rho mu iota src) (i - lo)
                                           else (i <? w) && Z.testbit (rho nm) i
  | _ => False
  end.
Proof. exact mk_aff_slice_bits. Qed.
Print Assumptions C04_subregister_write_back.

(** the carry / overflow identities themselves, for every width and value *)
Theorem C04_carry_identities : forall n x y ci, 0 < n -> 0 <= x < 2 ^ n -> 0 <= y < 2 ^ n -> 0 <= ci <= 1 ->
  let bx := Z.testbit x (n - 1) in let by_ := Z.testbit y (n - 1) in
  (let bz := Z.testbit ((x + y + ci) mod 2 ^ n) (n - 1) in
   xorb (xorb (xorb bx by_) bz) (andb (xorb bx bz) (negb (xorb bx by_))) = cf_add n x y ci /\ andb (xorb bx bz) (negb (xorb bx by_)) = of_add n x y ci) /\
  (let bz := Z.testbit ((x - y - ci) mod 2 ^ n) (n - 1) in
   xorb (xorb (xorb bx by_) bz) (andb (xorb bx bz) (xorb bx by_)) = cf_sub n x y ci /\ andb (xorb bx bz) (xorb bx by_) = of_sub n x y ci).
Proof. intros n x y ci Hn Hx Hy Hc. split; [exact (add_identities n x y ci Hn Hx Hy Hc) | exact (sub_identities n x y ci Hn Hx Hy Hc)]. Qed.
Print Assumptions C04_carry_identities.

(** the mirror lays the assignments out as the lifter does *)
Example C04_mirror_layout : forall a b, let c := alu_val Add a b in
  mirror Add a b = [upd_zf c; upd_nf c; upd_pf c; upd_af c; EAff (flag "cf") (add_cf_src a b c); EAff (flag "of") (add_of_src a b c); mk_aff a c].
Proof. reflexivity. Qed.
(** non-vacuity: more than 2000 regenerated binary forms and 150 unary forms are tied; and the auxiliary-carry formula is refuted *)
Example C04_nonvacuous_unary : (150 <= n_tied_u)%nat.
Proof. exact many_unary_forms_tied. Qed.
Example C04_nonvacuous : (2000 <= n_tied)%nat.
Proof. exact many_forms_tied. Qed.
Example C04_af_refuted : exists rho, let a := EId "eax" 32 true false in let b := EId "ebx" 32 true false in
  eval rho (fun _ => 0) (fun _ _ => 0) (ECond (e_and (alu_val Add a b) (int_from (alu_val Add a b) 16)) (i1 1) (i1 0)) = 1 /\
  (rho "eax" mod 16 + rho "ebx" mod 16) / 16 = 0.
Proof. exact af_formula_refuted. Qed.
