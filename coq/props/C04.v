(** C04 — lifted x86 semantics match the processor on the integer core.  Property theorems only.
    What is proved (arithmetic / logic group: add adc sub sbb cmp and or xor test inc dec neg, every operand form and width):
      (tie)     every such form of the lifted dump regenerated from /repo (one per mnemonic x operand-size x operand-shape
                signature) whose operands have equal width IS, node for node, the mirror of Sem.v applied to its own operands;
      (meaning) for ALL operand expressions of equal width n, all register / flag / memory valuations and all interpretations
                of uninterpreted operators: the value is the n-bit sum / difference / bitwise result (with carry-in for adc/sbb),
                cf is the carry / borrow out, of is the signed overflow, zf / sf / pf are those of the result.
    Condition codes (setcc / cmovcc / jcc, all sixteen conditions): EVERY such form of the regenerated dump realises, in every
    state, memory and operator interpretation, the SDM condition its mnemonic names — the byte is 1 or 0, the destination takes
    the other operand or keeps its value, eip becomes the other branch or the next-instruction address; decided by evaluation
    under the 32 valuations of (cf, zf, sf, of, pf) and lifted to all states by a coincidence theorem for flag-only expressions
    (SemCCProofs).  After a comparison the sixteen conditions are the unsigned / signed order relations (cc_after_cmp).
    Data movement (mov xchg movzx movsx lea not push pop nop clc stc cmc cld std): every such form of the regenerated dump is,
    node for node, the mirror of SemMov.v applied to the operand expressions the lifter was called with (dumped beside the list),
    except the shapes the mirror declines (segment-register push/pop; movzx/movsx/lea between equal or mismatched widths under
    the 66 prefix); for ALL operands and states: movzx yields the source's value, movsx its sign extension (bit level), not the
    one's complement, push/pop move esp by the operand size modulo 2^32, pop to a memory operand addressed through esp uses the
    incremented esp, cmc complements cf.
    Shifts and rotates (sal = shl, shr, sar, rol, ror), VALUE only: in every regenerated form the destination is assigned the mirror
    SemShift.shift_val of the dumped operands, and for ALL operands and states that value is the processor's — x * 2^c mod 2^n,
    x / 2^c, the arithmetic shift of the signed reading, the bit rotation — with the count masked to five bits (c = count mod 32,
    counts >= n included).  WHOLE LISTS, flags included (sal shr sar rol ror rcl rcr): every regenerated list is, node for node, the
    mirror SemShiftFlags.mirror_shf of the dumped operands; for ALL operands and states the carry flag written by shl / shr / sar is
    the processor's: count 0 keeps cf, otherwise cf receives the last bit shifted out (bit n - c of the operand for shl with c <= n,
    bit c - 1 for shr and of the sign-extended operand for sar); the carry flag written by rol / ror is the low / top bit of the
    rotated value (the processor's rule for a non-zero count); rcl / rcr write the value and the carry of the (n+1)-bit ring
    operand:cf rotated by count & 31 modulo n + 1 (Expr.rc_op's reading of the lifter's through-carry operators), bit by bit.  The other flag assignments of this group are mirrored as written
    but have no meaning theorem: several are known findings (zf / sf / pf / of rewritten when the count is 0, the OF "hacks" of the
    rotates, cf of rotates with count 0).
    Near control transfers with 32-bit operand size (call ret leave jmp): each regenerated list is the mirror SemCtl.mirror_ctl of the
    dumped operands and next-instruction address (return address pushed at esp - 4, eip := target; eip := [esp], esp + 4 + imm;
    ebp := [ebp], esp := ebp + 4), stack-pointer arithmetic modulo 2^32.
    String moves (movs stos lods; byte / word / dword, 16- and 32-bit addressing): each regenerated list is the mirror SemStr.mirror_str
    of the dumped operands; the pointer registers move by the element size, down when df is set, modulo the pointer width.
    lahf / sahf: the regenerated lists are the mirror; ah receives SF:ZF:0:AF:0:PF:1:CF and each flag receives its bit of ah.
    Exchange-and-add, string compares, counted loops, sign fill, bit tests, byte swap, compare-and-exchange (xadd cmps scas loop loope
    loopne jecxz cdq bt btc bts btr bswap cmpxchg): every such form of the regenerated dump is, node for node, the mirror
    SemMisc.mirror_misc of the dumped operands, operand-size flag and next-instruction address (bswap of a 16-bit register, undefined
    architecturally, is declined).  For ALL operands and states: xadd's sum, cf and of are those of the addition and the source receives
    the old destination; cmps / scas are the cmp mirror of [esi] - [edi] / accumulator - [edi] followed by the string pointer update;
    the loop family decrements ecx modulo 2^32 and leaves the loop exactly when the new count is 0 (or zf is set / clear for loopne /
    loope), jecxz branches exactly when ecx is 0; cdq / cwd fill edx / dx so that upper:lower is the sign extension; on a register
    operand of 16 or 32 bits bt* copy bit (index mod width) to cf and bts / btr / btc set / clear / complement that bit only; bswap's
    byte j is the operand's byte 3 - j; cmpxchg's comparison expression is zero exactly when destination and accumulator are equal.
    NOT covered by these theorems and left to the evaluation against the SDM reference: the count register under the 67 prefix, the
    bit-string addressing of bt* on memory operands, which accumulator slice cmpxchg compares with and its other flags (known findings),
    xadd with both operands in one register (known finding).
    Double shifts (shld shrd; immediate and cl counts; 16- and 32-bit operands), VALUE only: in every regenerated form the destination is
    assigned the mirror SemDShift.dshift_val of the dumped operands, and for ALL operands and states with a count not above the width
    that value is the processor's — shrd: dest / 2^c OR-ed with (src * 2^(n-c)) mod 2^n; shld: the count masked to five bits, count 0
    keeps the destination, otherwise (dest * 2^c) mod 2^n OR-ed with src / 2^(n-c).  Counts above the width (shrd does not mask its
    count; 16-bit operands with counts 17..31 are architecturally undefined) and the flags are left to the evaluation.
    Multiply / divide (mul, imul with one, two and three operands, div, idiv; 8/16/32 bits): every regenerated list is, node for node,
    the mirror SemMulDiv.mirror_muldiv of the dumped operands; under Expr.eval — whose reading of the lifter's named wide operators
    (umulN_hi/lo, imulN_hi/lo, umul08, imul08, divN, remN, idivN, iremN; the library itself never evaluates them) is Expr.named_op —
    edx:eax / dx:ax / ax is the unsigned product of the accumulator and the operand, the signed double-width product modulo 2^(2n),
    the two- and three-operand imul yields the product truncated to n bits (the same for signed and unsigned readings), and when the
    divisor is non-zero and the quotient fits (no #DE) div / idiv leave the quotient and remainder of the double-width dividend
    (truncating division of the signed readings for idiv); cf = of of the 16- and 32-bit mul are set exactly when the product does
    not fit n bits.  The other flags of this group are left to the evaluation (known findings).
    Bit scans, flag images and frames (setalc bsf bsr xlat pushfd pushfw popfd popfw enter): every regenerated list is, node for node, the
    mirror SemSys.mirror_sys; bsf / bsr of a non-zero operand yield the index of its lowest / highest set bit (Expr.named_op's reading
    of the operators bsf / bsr) and zf tells whether the source is zero; setalc fills al with cf; xlat reads the byte at ebx + al
    modulo 2^32; bit j of the pushed EFLAGS image is the bit of the flag the SDM layout places there, and popf assigns every flag its
    bits of the popped cell; enter (nesting level 0, 32-bit) saves ebp at esp - 4 and drops esp by the frame size plus 4.
    af is refuted (known finding: the formula is pinned by tests/test_emul.py).  Everything else of the integer core (flags of
    shifts and rotates, rcl/rcr, far and 16-bit control transfers ...) is decided by evaluating the regenerated IR with the
    extracted Expr.eval against the SDM reference (harness/p_c04.py), not by a theorem. *)
From Coq Require Import ZArith List Bool String.
From Mx Require Import Expr Wf Sem SemProofs SemFacts SemCC SemCCProofs SemCCFacts SemMov SemMovProofs SemMovFacts SemShift SemShiftProofs SemShiftFacts SemCtl SemCtlProofs SemCtlFacts SemStr SemStrProofs SemStrFacts SemFlagMove SemFlagMoveFacts SemMisc SemMiscProofs SemMiscFacts SemDShift SemDShiftProofs SemDShiftFacts SemMulDiv SemMulDivProofs SemMulDivFacts SemSys SemSysProofs SemSysFacts SemShiftFlags SemShiftFlagsProofs SemShiftFlagsFacts SemRcProofs.
From MxGen Require Import LiftAll.
Import ListNotations.
Open Scope Z_scope.

Theorem C04_alu_forms_are_the_mirror : forall sh c, In sh shards -> In c sh -> tie_ok c = true.
Proof. exact alu_forms_tied_lifted. Qed.
Print Assumptions C04_alu_forms_are_the_mirror.

Theorem C04_tied_form_means_mirror : forall k l, is_mirror k l = true ->
  exists a b, operand_ok a = true /\ operand_ok b = true /\ size a = size b /\ (size a = 8 \/ size a = 16 \/ size a = 32) /\
              forall rho mu iota, map (eval rho mu iota) l = map (eval rho mu iota) (mirror k a b).
Proof. exact is_mirror_sound. Qed.
Print Assumptions C04_tied_form_means_mirror.

Theorem C04_add_adc : forall rho mu iota a b, operand_ok a = true -> operand_ok b = true -> size a = size b ->
  forall k cin_, (k = Add /\ cin_ = 0) \/ (k = Adc /\ cin_ = ci rho) ->
  let n := size a in let x := eval rho mu iota a in let y := eval rho mu iota b in let c := alu_val k a b in
  eval rho mu iota c = (x + y + cin_) mod 2 ^ n /\
  eval rho mu iota (add_cf_src a b c) = Z.b2z (cf_add n x y cin_) /\
  eval rho mu iota (add_of_src a b c) = Z.b2z (of_add n x y cin_).
Proof. exact add_flags. Qed.
Print Assumptions C04_add_adc.

Theorem C04_sub_sbb_cmp : forall rho mu iota a b, operand_ok a = true -> operand_ok b = true -> size a = size b ->
  forall k cin_, ((k = Sub \/ k = Cmp) /\ cin_ = 0) \/ (k = Sbb /\ cin_ = ci rho) ->
  let n := size a in let x := eval rho mu iota a in let y := eval rho mu iota b in let c := alu_val k a b in
  eval rho mu iota c = (x - y - cin_) mod 2 ^ n /\
  eval rho mu iota (sub_cf_src a b c) = Z.b2z (cf_sub n x y cin_) /\
  eval rho mu iota (sub_of_src a b c) = Z.b2z (of_sub n x y cin_).
Proof. exact sub_flags. Qed.
Print Assumptions C04_sub_sbb_cmp.

Theorem C04_logic : forall rho mu iota a b, operand_ok a = true -> operand_ok b = true -> size a = size b ->
  let x := eval rho mu iota a in let y := eval rho mu iota b in
  eval rho mu iota (alu_val And a b) = Z.land x y /\ eval rho mu iota (alu_val Test a b) = Z.land x y /\
  eval rho mu iota (alu_val Or a b) = Z.lor x y /\ eval rho mu iota (alu_val Xor a b) = Z.lxor x y.
Proof. exact logic_vals. Qed.
Print Assumptions C04_logic.

Theorem C04_zf_sf_pf : forall rho mu iota a b, operand_ok a = true -> operand_ok b = true -> size a = size b -> forall k,
  let c := alu_val k a b in
  eval rho mu iota (ECond c (i1 0) (i1 1)) = (if eval rho mu iota c =? 0 then 1 else 0) /\
  eval rho mu iota (msb c) = Z.b2z (Z.testbit (eval rho mu iota c) (size a - 1)) /\
  eval rho mu iota (EOp "parity" [c]) = parity8 (eval rho mu iota c).
Proof. intros rho mu iota a b Ha Hb _ k. exact (znp_flags rho mu iota a b Ha Hb k). Qed.
Print Assumptions C04_zf_sf_pf.

(** inc, dec, neg: every regenerated form is the mirror (tie above); value and flags for all operands and states *)
Theorem C04_unary_form_means_mirror : forall k l, is_mirror_u k l = true ->
  exists a, operand_ok a = true /\ (size a = 8 \/ size a = 16 \/ size a = 32) /\
            forall rho mu iota, map (eval rho mu iota) l = map (eval rho mu iota) (mirror_u k a).
Proof. exact is_mirror_u_sound. Qed.
Print Assumptions C04_unary_form_means_mirror.
Theorem C04_inc : forall rho mu iota a, operand_ok a = true -> (size a = 8 \/ size a = 16 \/ size a = 32) ->
  let c := alu_val Add a (una_const Inc a) in
  eval rho mu iota c = (eval rho mu iota a + 1) mod 2 ^ size a /\
  eval rho mu iota (add_of_src a (una_const Inc a) c) = Z.b2z (of_add (size a) (eval rho mu iota a) 1 0).
Proof. exact inc_correct. Qed.
Print Assumptions C04_inc.
Theorem C04_dec : forall rho mu iota a, operand_ok a = true -> (size a = 8 \/ size a = 16 \/ size a = 32) ->
  let c := alu_val Add a (una_const Dec a) in
  eval rho mu iota c = (eval rho mu iota a - 1) mod 2 ^ size a /\
  eval rho mu iota (add_of_src a (una_const Dec a) c) = Z.b2z (of_sub (size a) (eval rho mu iota a) 1 0).
Proof. exact dec_correct. Qed.
Print Assumptions C04_dec.
Theorem C04_neg : forall rho mu iota a, operand_ok a = true -> (size a = 8 \/ size a = 16 \/ size a = 32) ->
  let c := alu_val Sub (una_const Neg a) a in
  eval rho mu iota c = (- eval rho mu iota a) mod 2 ^ size a /\
  eval rho mu iota (sub_cf_src (una_const Neg a) a c) = Z.b2z (negb (eval rho mu iota a =? 0)) /\
  eval rho mu iota (sub_of_src (una_const Neg a) a c) = Z.b2z (of_sub (size a) 0 (eval rho mu iota a) 0).
Proof. exact neg_correct. Qed.
Print Assumptions C04_neg.

(** the destination: an assignment to bits [lo, hi) of a register (al, ah, ax ...) is rewritten by ExprAff into an assignment
    of the whole register whose value has exactly those bits replaced by the source and every other bit unchanged *)
Theorem C04_subregister_write_back : forall rho mu iota nm w rg tm lo hi src, 0 <= lo -> lo < hi -> hi <= w ->
  match mk_aff (ESlice (EId nm w rg tm) lo hi) src with
  | EAff d s => d = EId nm w rg tm /\
      forall i, 0 <= i ->
        Z.testbit (eval rho mu iota s) i = if (lo <=? i) && (i <? hi) then Z.testbit (eval rho mu iota src) (i - lo)
                                           else (i <? w) && Z.testbit (rho nm) i
  | _ => False
  end.
Proof. exact mk_aff_slice_bits. Qed.
Print Assumptions C04_subregister_write_back.

(** the carry / overflow identities themselves, for every width and value *)
Theorem C04_carry_identities : forall n x y ci, 0 < n -> 0 <= x < 2 ^ n -> 0 <= y < 2 ^ n -> 0 <= ci <= 1 ->
  let bx := Z.testbit x (n - 1) in let by_ := Z.testbit y (n - 1) in
  (let bz := Z.testbit ((x + y + ci) mod 2 ^ n) (n - 1) in
   xorb (xorb (xorb bx by_) bz) (andb (xorb bx bz) (negb (xorb bx by_))) = cf_add n x y ci /\ andb (xorb bx bz) (negb (xorb bx by_)) = of_add n x y ci) /\
  (let bz := Z.testbit ((x - y - ci) mod 2 ^ n) (n - 1) in
   xorb (xorb (xorb bx by_) bz) (andb (xorb bx bz) (xorb bx by_)) = cf_sub n x y ci /\ andb (xorb bx bz) (xorb bx by_) = of_sub n x y ci).
Proof. intros n x y ci Hn Hx Hy Hc. split; [exact (add_identities n x y ci Hn Hx Hy Hc) | exact (sub_identities n x y ci Hn Hx Hy Hc)]. Qed.
Print Assumptions C04_carry_identities.

(** condition codes: every regenerated setcc / cmovcc / jcc form, every state *)
Theorem C04_setcc : forall sh c k l, In sh shards -> In c sh -> cc_family (lc_mnemo c) = Some (FSet, k) -> lc_lift c = Some l ->
  exists a x s, l = [a] /\ expr_eqb (mk_aff x s) a = true /\ size x = 8 /\ size s = 8 /\
    forall rho mu iota, eval rho mu iota s = b2z (cc_holds k (fl_of rho)).
Proof. exact setcc_forms. Qed.
Print Assumptions C04_setcc.

Theorem C04_cmovcc : forall sh c k l, In sh shards -> In c sh -> cc_family (lc_mnemo c) = Some (FCmov, k) -> lc_lift c = Some l ->
  exists a x g p q b, l = [a] /\ expr_eqb (mk_aff x (ECond g p q)) a = true /\ (b = p \/ b = q) /\
    forall rho mu iota, eval rho mu iota (ECond g p q) = if cc_holds k (fl_of rho) then eval rho mu iota b else eval rho mu iota x.
Proof. exact cmovcc_forms. Qed.
Print Assumptions C04_cmovcc.

Theorem C04_jcc : forall sh c k l, In sh shards -> In c sh -> cc_family (lc_mnemo c) = Some (FJcc, k) -> lc_lift c = Some l ->
  exists d g p q t, l = [EAff d (ECond g p q)] /\ is_eip d = true /\ (t = p \/ t = q) /\
    forall rho mu iota, eval rho mu iota (ECond g p q) = if cc_holds k (fl_of rho) then eval rho mu iota t else lc_next c.
Proof. exact jcc_forms. Qed.
Print Assumptions C04_jcc.

(** the checkers decide for all states: a flag-only expression depends on the state through the five flag bits only *)
Theorem C04_flag_expressions : forall rho mu iota e, flagexp e = true -> eval rho mu iota e = feval (fl_of rho) e.
Proof. exact feval_any. Qed.
Print Assumptions C04_flag_expressions.

(** the sixteen conditions after cmp x, y (flags as proved in C04_sub_sbb_cmp): the order relations their mnemonics name *)
Theorem C04_conditions_after_cmp : forall n x y pf, 0 < n -> 0 <= x < 2 ^ n -> 0 <= y < 2 ^ n ->
  let v := cmp_flags n x y pf in
  cc_holds CB v = (x <? y) /\ cc_holds CAE v = (y <=? x) /\ cc_holds CE v = (x =? y) /\ cc_holds CNE v = negb (x =? y) /\
  cc_holds CBE v = (x <=? y) /\ cc_holds CA v = (y <? x) /\
  cc_holds CL v = (sgnv n x <? sgnv n y) /\ cc_holds CGE v = (sgnv n y <=? sgnv n x) /\
  cc_holds CLE v = (sgnv n x <=? sgnv n y) /\ cc_holds CG v = (sgnv n y <? sgnv n x).
Proof. exact cc_after_cmp. Qed.
Print Assumptions C04_conditions_after_cmp.

(** data movement: the regenerated forms are the mirror applied to the dumped operands, and what the mirror means *)
Theorem C04_data_movement_forms_are_the_mirror : forall sh c k l, In sh shards -> In c sh -> mv_of (lc_mnemo c) = Some k -> lc_lift c = Some l ->
  mirror_mv k (lc_args c) = None \/ is_mirror_mv k (lc_args c) l = true.
Proof. exact mv_forms_lifted. Qed.
Print Assumptions C04_data_movement_forms_are_the_mirror.

Theorem C04_tied_data_movement_means_mirror : forall k args l, is_mirror_mv k args l = true ->
  exists m, mirror_mv k args = Some m /\ forall rho mu iota, map (eval rho mu iota) l = map (eval rho mu iota) m.
Proof. exact is_mirror_mv_sound. Qed.
Print Assumptions C04_tied_data_movement_means_mirror.

Theorem C04_movzx : forall rho mu iota a b, operand_ok b = true -> size b < size a -> eval rho mu iota (zext_src a b) = eval rho mu iota b.
Proof. exact zext_value. Qed.
Print Assumptions C04_movzx.

Theorem C04_movsx : forall rho mu iota a b, operand_ok b = true -> size b < size a -> size a - size b <= 32 -> forall i, 0 <= i ->
  Z.testbit (eval rho mu iota (sext_src a b)) i =
    if i <? size b then Z.testbit (eval rho mu iota b) i else (i <? size a) && Z.testbit (eval rho mu iota b) (size b - 1).
Proof. exact sext_bits. Qed.
Print Assumptions C04_movsx.

Theorem C04_not : forall rho mu iota b, operand_ok b = true -> eval rho mu iota (e_not b) = 2 ^ size b - 1 - eval rho mu iota b.
Proof. exact not_value. Qed.
Print Assumptions C04_not.

Theorem C04_push_pop_stack_pointer : forall rho mu iota k,
  eval rho mu iota (EOp "-" [esp; EInt false 32 k]) = (rho "esp" - k) mod 2 ^ 32 /\
  eval rho mu iota (EOp "+" [esp; EInt false 32 k]) = (rho "esp" + k) mod 2 ^ 32.
Proof. intros rho mu iota k. split; [apply esp_minus | apply esp_plus]. Qed.
Print Assumptions C04_push_pop_stack_pointer.

Theorem C04_pop_addresses_through_incremented_esp : forall rho mu iota n, size n = 32 -> 0 <= eval rho mu iota n < 2 ^ 32 ->
  forall e, addr_shape e = true ->
  eval rho mu iota (subst_esp n e) = eval (fun x => if (x =? "esp")%string then eval rho mu iota n else rho x) mu iota e.
Proof. exact subst_esp_eval. Qed.
Print Assumptions C04_pop_addresses_through_incremented_esp.

Theorem C04_cmc : forall rho mu iota, eval rho mu iota (ECond (flag "cf") (i1 0) (i1 1)) = 1 - wrap 1 (rho "cf").
Proof. exact cmc_value. Qed.
Print Assumptions C04_cmc.

(** shifts and rotates: the value assigned to the destination *)
Theorem C04_shift_forms_are_the_mirror : forall sh c k l, In sh shards -> In c sh -> sh_of (lc_mnemo c) = Some k -> lc_lift c = Some l ->
  is_shift_mirror k (lc_args c) l = true.
Proof. exact shift_forms_lifted. Qed.
Print Assumptions C04_shift_forms_are_the_mirror.

Theorem C04_tied_shift_means_mirror : forall k args l, is_shift_mirror k args l = true ->
  exists a b x, args = [a; b] /\ last_expr l = Some x /\ operand_ok a = true /\ operand_ok b = true /\ (size a = 8 \/ size a = 16 \/ size a = 32) /\
    forall rho mu iota, eval rho mu iota x = eval rho mu iota (mk_aff a (shift_val k a b)).
Proof. exact is_shift_mirror_sound. Qed.
Print Assumptions C04_tied_shift_means_mirror.

Theorem C04_shl_shr_sar_values : forall rho mu iota a b, operand_ok a = true -> operand_ok b = true -> (size b = 8 \/ size b = 16 \/ size b = 32) ->
  let n := size a in let x := eval rho mu iota a in let c := count rho mu iota b in
  eval rho mu iota (shift_val Sal a b) = (x * 2 ^ c) mod 2 ^ n /\
  eval rho mu iota (shift_val Shr a b) = x / 2 ^ c /\
  eval rho mu iota (shift_val Sar a b) = (sgnv n x / 2 ^ c) mod 2 ^ n.
Proof. intros rho mu iota a b Oa Ob Sb. split; [apply shl_value | split; [apply shr_value | apply sar_value]]; assumption. Qed.
Print Assumptions C04_shl_shr_sar_values.

Theorem C04_rol_ror_bits : forall rho mu iota a b, operand_ok a = true -> operand_ok b = true -> forall i, 0 <= i < size a ->
  Z.testbit (eval rho mu iota (shift_val Rol a b)) i = Z.testbit (eval rho mu iota a) ((i - eval rho mu iota b mod size a) mod size a) /\
  Z.testbit (eval rho mu iota (shift_val Ror a b)) i = Z.testbit (eval rho mu iota a) ((i + eval rho mu iota b mod size a) mod size a).
Proof. intros rho mu iota a b Oa Ob i Hi. split; [apply rol_bits | apply ror_bits]; assumption. Qed.
Print Assumptions C04_rol_ror_bits.

(** near control transfers (32-bit operand size) *)
Theorem C04_control_transfer_forms_are_the_mirror : forall sh c k l, In sh shards -> In c sh -> ctl_of (lc_mnemo c) = Some k -> lc_lift c = Some l ->
  mirror_ctl k (lc_o16 c) (lc_next c) (lc_args c) = None \/
  exists m, mirror_ctl k (lc_o16 c) (lc_next c) (lc_args c) = Some m /\ forall rho mu iota, map (eval rho mu iota) l = map (eval rho mu iota) m.
Proof. exact ctl_forms_lifted. Qed.
Print Assumptions C04_control_transfer_forms_are_the_mirror.

Theorem C04_call_ret_leave_stack_pointer : forall rho mu iota,
  eval rho mu iota (EOp "+" [esp; EInt false 32 4294967292]) = (rho "esp" - 4) mod 2 ^ 32 /\
  (forall a, 0 < size a -> eval rho mu iota (EOp "+" [esp; EOp "+" [EInt false 32 4; a]]) = (rho "esp" + 4 + eval rho mu iota a) mod 2 ^ 32) /\
  eval rho mu iota (EOp "+" [EInt false 32 4; ebp]) = (rho "ebp" + 4) mod 2 ^ 32.
Proof. intros rho mu iota. split; [apply call_esp | split; [intros a Ha; apply ret_esp; exact Ha | apply leave_esp]]. Qed.
Print Assumptions C04_call_ret_leave_stack_pointer.

(** the mirror of `call eax` at 0x1000 (2 bytes) *)
Example C04_call_mirror : mirror_ctl Call false 4098 [EId "eax" 32 true false] =
  Some [EAff esp (EOp "+" [esp; EInt false 32 4294967292]); EAff (EMem (EOp "+" [esp; EInt false 32 4294967292]) 32 None) (EInt false 32 4098); EAff eip (EId "eax" 32 true false)].
Proof. reflexivity. Qed.

(** string moves *)
Theorem C04_string_move_forms_are_the_mirror : forall sh c k l, In sh shards -> In c sh -> str_of (lc_mnemo c) = Some k -> lc_lift c = Some l ->
  exists m, mirror_str k (lc_args c) = Some m /\ forall rho mu iota, map (eval rho mu iota) l = map (eval rho mu iota) m.
Proof. exact str_forms_lifted. Qed.
Print Assumptions C04_string_move_forms_are_the_mirror.

Theorem C04_string_pointer_update : forall rho mu iota p off, operand_ok p = true -> 0 <= off < 2 ^ size p ->
  eval rho mu iota (ptr_next p off) = if Z.odd (rho "df") then (eval rho mu iota p - off) mod 2 ^ size p else (eval rho mu iota p + off) mod 2 ^ size p.
Proof. exact ptr_next_value. Qed.
Print Assumptions C04_string_pointer_update.

(** lahf / sahf *)
Theorem C04_lahf_sahf_forms_are_the_mirror : forall sh c m l, In sh shards -> In c sh -> flagmove_mirror (lc_mnemo c) = Some m -> lc_lift c = Some l ->
  forall rho mu iota, map (eval rho mu iota) l = map (eval rho mu iota) m.
Proof. exact flagmove_forms_lifted. Qed.
Print Assumptions C04_lahf_sahf_forms_are_the_mirror.

Theorem C04_lahf_sahf_meaning : forall rho mu iota,
  eval rho mu iota lahf_src = fbit rho "cf" + 2 + 4 * fbit rho "pf" + 16 * fbit rho "af" + 64 * fbit rho "zf" + 128 * fbit rho "nf" /\
  forall k, 0 <= k < 8 -> eval rho mu iota (ESlice ah k (k + 1)) = Z.b2z (Z.testbit (rho "eax") (8 + k)).
Proof. intros rho mu iota. split; [apply lahf_value | intros k Hk; apply sahf_bit; exact Hk]. Qed.
Print Assumptions C04_lahf_sahf_meaning.

(** xadd cmps scas loop loope loopne jecxz cdq bt btc bts btr bswap cmpxchg *)
Theorem C04_misc_forms_are_the_mirror : forall sh c k l m, In sh shards -> In c sh -> misc_of (lc_mnemo c) = Some k -> lc_lift c = Some l ->
  mirror_misc k (lc_o16 c) (lc_next c) (lc_args c) = Some m -> forall rho mu iota, map (eval rho mu iota) l = map (eval rho mu iota) m.
Proof. exact misc_forms_lifted. Qed.
Print Assumptions C04_misc_forms_are_the_mirror.

Theorem C04_xadd : forall rho mu iota a b, operand_ok a = true -> operand_ok b = true -> size a = size b ->
  let n := size a in let x := eval rho mu iota a in let y := eval rho mu iota b in let c := alu_val Add b a in
  eval rho mu iota c = (x + y) mod 2 ^ n /\
  eval rho mu iota (add_cf_src b a c) = Z.b2z (cf_add n y x 0) /\ eval rho mu iota (add_of_src b a c) = Z.b2z (of_add n y x 0).
Proof. exact xadd_value. Qed.
Print Assumptions C04_xadd.

Theorem C04_cmps_scas_are_cmp_then_pointer_update : forall o nx pa w sa pb sb,
  mirror_misc Cmps o nx [EMem pa w sa; EMem pb w sb] =
    Some (mirror Cmp (EMem pb w sb) (EMem pa w sa) ++ [mk_aff pa (ptr_next pa (w / 8)); mk_aff pb (ptr_next2 pa pb (w / 8))]) /\
  mirror_misc Scas o nx [EMem pa w sa] = Some (mirror Cmp (ESlice eax 0 w) (EMem pa w sa) ++ [mk_aff pa (ptr_next pa (w / 8))]) /\
  (size pa = size pb -> ptr_next2 pa pb (w / 8) = ptr_next pb (w / 8)).
Proof. intros o nx pa w sa pb sb. split; [apply cmps_shape | split; [apply scas_shape | apply ptr_next2_same]]. Qed.
Print Assumptions C04_cmps_scas_are_cmp_then_pointer_update.

Theorem C04_loop_family : forall rho mu iota b nx,
  let c := (rho "ecx" - 1) mod 2 ^ 32 in let z := Z.odd (rho "zf") in
  eval rho mu iota ecx_dec = c /\
  eval rho mu iota (ECond ecx_dec b nx) = (if c =? 0 then eval rho mu iota nx else eval rho mu iota b) /\
  eval rho mu iota (ECond loopne_exit nx b) = (if (c =? 0) || z then eval rho mu iota nx else eval rho mu iota b) /\
  eval rho mu iota (ECond loope_exit nx b) = (if (c =? 0) || negb z then eval rho mu iota nx else eval rho mu iota b) /\
  eval rho mu iota (ECond ecx nx b) = (if rho "ecx" mod 2 ^ 32 =? 0 then eval rho mu iota b else eval rho mu iota nx).
Proof.
  intros rho mu iota b nx. split; [apply ecx_dec_value|]. split; [apply loop_eip|]. split; [apply loopne_eip|]. split; [apply loope_eip | apply jecxz_eip].
Qed.
Print Assumptions C04_loop_family.

Theorem C04_cdq_cwd_sign_fill : forall rho mu iota a, operand_ok a = true ->
  let n := size a in let x := eval rho mu iota a in
  eval rho mu iota (sign_fill a) = (if Z.testbit x (n - 1) then 2 ^ n - 1 else 0) /\
  x + 2 ^ n * eval rho mu iota (sign_fill a) = sgnv n x mod 2 ^ (2 * n).
Proof. exact sign_fill_value. Qed.
Print Assumptions C04_cdq_cwd_sign_fill.

Theorem C04_bit_tests_on_registers : forall rho mu iota a b k, operand_ok a = true -> operand_ok b = true -> bit_cell a b = a ->
  0 <= k -> size a = 2 ^ k -> size a <= 2 ^ size b ->
  let n := size a in let x := eval rho mu iota a in let p := eval rho mu iota b mod n in
  eval rho mu iota (EOp "&" [EOp ">>" [bit_cell a b; bit_index a b]; int_from a 1]) = Z.b2z (Z.testbit x p) /\
  forall i, 0 <= i < n ->
    Z.testbit (eval rho mu iota (EOp "|" [bit_cell a b; bit_mask a b])) i = (if i =? p then true else Z.testbit x i) /\
    Z.testbit (eval rho mu iota (EOp "&" [bit_cell a b; e_not (bit_mask a b)])) i = (if i =? p then false else Z.testbit x i) /\
    Z.testbit (eval rho mu iota (EOp "^" [bit_cell a b; bit_mask a b])) i = (if i =? p then negb (Z.testbit x i) else Z.testbit x i).
Proof.
  intros rho mu iota a b k Oa Ob Reg Hk Sa Sb n x p. split; [exact (bit_cf_value rho mu iota a b Oa Ob Reg k Hk Sa Sb)|].
  intros i Hi. split; [exact (bts_bits rho mu iota a b Oa Ob Reg k Hk Sa Sb i Hi)|].
  split; [exact (btr_bits rho mu iota a b Oa Ob Reg k Hk Sa Sb i Hi) | exact (btc_bits rho mu iota a b Oa Ob Reg k Hk Sa Sb i Hi)].
Qed.
Print Assumptions C04_bit_tests_on_registers.

Theorem C04_bswap : forall rho mu iota a, operand_ok a = true -> size a = 32 -> forall j m, 0 <= j < 4 -> 0 <= m < 8 ->
  Z.testbit (eval rho mu iota (bswap_val a)) (8 * j + m) = Z.testbit (eval rho mu iota a) (8 * (3 - j) + m).
Proof. exact bswap_bytes. Qed.
Print Assumptions C04_bswap.

Theorem C04_cmpxchg_comparison : forall rho mu iota a c, operand_ok a = true -> operand_ok c = true -> size a = size c ->
  (eval rho mu iota (EOp "+" [a; EOp "-" [c]]) =? 0) = (eval rho mu iota a =? eval rho mu iota c).
Proof. exact cmpxchg_cond. Qed.
Print Assumptions C04_cmpxchg_comparison.

(** shld / shrd *)
Theorem C04_double_shift_forms_are_the_mirror : forall sh c k l, In sh shards -> In c sh -> dsh_of (lc_mnemo c) = Some k -> lc_lift c = Some l ->
  is_dshift_mirror k (lc_args c) l = true.
Proof. exact dshift_forms_lifted. Qed.
Print Assumptions C04_double_shift_forms_are_the_mirror.
Theorem C04_tied_double_shift_means_mirror : forall k args l, is_dshift_mirror k args l = true ->
  exists a b c x, args = [a; b; c] /\ last_expr l = Some x /\ operand_ok a = true /\ operand_ok b = true /\ operand_ok c = true /\ size a = size b /\
    (size a = 16 \/ size a = 32) /\ forall rho mu iota, eval rho mu iota x = eval rho mu iota (mk_aff a (dshift_val k a b c)).
Proof. exact is_dshift_mirror_sound. Qed.
Print Assumptions C04_tied_double_shift_means_mirror.
Theorem C04_shrd_value : forall rho mu iota a b c, operand_ok a = true -> operand_ok b = true -> size a = size b -> operand_ok c = true ->
  let n := size a in let x := eval rho mu iota a in let y := eval rho mu iota b in let k := eval rho mu iota c in k <= n ->
  eval rho mu iota (shrd_val a b c) = Z.lor (x / 2 ^ k) ((y * 2 ^ (n - k)) mod 2 ^ n).
Proof. intros rho mu iota a b c Oa Ob S Oc n x y k Hk. exact (shrd_value rho mu iota a b Oa Ob S c Oc Hk). Qed.
Print Assumptions C04_shrd_value.
Theorem C04_shld_value : forall rho mu iota a b c, operand_ok a = true -> operand_ok b = true -> size a = size b -> (size a = 16 \/ size a = 32) ->
  operand_ok c = true -> (size c = 8 \/ size c = 16 \/ size c = 32) ->
  let n := size a in let x := eval rho mu iota a in let y := eval rho mu iota b in let k := eval rho mu iota c mod 32 in k <= n ->
  eval rho mu iota (shld_val a b c) = if k =? 0 then x else Z.lor ((x * 2 ^ k) mod 2 ^ n) (y / 2 ^ (n - k)).
Proof. intros rho mu iota a b c Oa Ob S Hn Oc Sc n x y k Hk. exact (shld_value rho mu iota a b Oa Ob S c Hn Oc Sc Hk). Qed.
Print Assumptions C04_shld_value.

(** mul imul div idiv *)
Theorem C04_muldiv_forms_are_the_mirror : forall sh c k l, In sh shards -> In c sh -> muldiv_of (lc_mnemo c) = Some k -> lc_lift c = Some l ->
  exists m, mirror_muldiv k (lc_args c) = Some m /\ forall rho mu iota, map (eval rho mu iota) l = map (eval rho mu iota) m.
Proof. exact muldiv_forms_lifted. Qed.
Print Assumptions C04_muldiv_forms_are_the_mirror.
Theorem C04_mul : forall rho mu iota a, operand_ok a = true ->
  (size a = 32 -> eval rho mu iota (EOp "umul32_hi" [eax; a]) * 2 ^ 32 + eval rho mu iota (EOp "umul32_lo" [eax; a]) = rho "eax" mod 2 ^ 32 * eval rho mu iota a) /\
  (size a = 16 -> eval rho mu iota (EOp "umul16_hi" [r_ax; a]) * 2 ^ 16 + eval rho mu iota (EOp "umul16_lo" [r_ax; a]) = rho "eax" mod 2 ^ 16 * eval rho mu iota a) /\
  (size a = 8 -> (eval rho mu iota (EOp "umul08" [eax; a])) mod 2 ^ 16 = rho "eax" mod 2 ^ 8 * eval rho mu iota a).
Proof. intros rho mu iota a Oa. split; [|split]; intros Sa; [apply mul32_value | apply mul16_value | apply mul8_value]; assumption. Qed.
Print Assumptions C04_mul.
Theorem C04_mul_flags : forall rho mu iota a, operand_ok a = true ->
  (forall hi, eval rho mu iota (nonzero32 hi) = if eval rho mu iota hi =? 0 then 0 else 1) /\
  (size a = 32 -> (eval rho mu iota (EOp "umul32_hi" [eax; a]) =? 0) = (rho "eax" mod 2 ^ 32 * eval rho mu iota a <? 2 ^ 32)) /\
  (size a = 16 -> (eval rho mu iota (EOp "umul16_hi" [r_ax; a]) =? 0) = (rho "eax" mod 2 ^ 16 * eval rho mu iota a <? 2 ^ 16)).
Proof. intros rho mu iota a Oa. split; [intros hi; apply mul_flags_value|]. split; intros Sa; [apply mul32_overflow | apply mul16_overflow]; assumption. Qed.
Print Assumptions C04_mul_flags.
Theorem C04_imul_wide : forall rho mu iota a, operand_ok a = true ->
  (size a = 32 -> eval rho mu iota (EOp "imul32_hi" [eax; a]) * 2 ^ 32 + eval rho mu iota (EOp "imul32_lo" [eax; a]) =
                  (sgn 32 (rho "eax" mod 2 ^ 32) * sgn 32 (eval rho mu iota a)) mod 2 ^ 64) /\
  (size a = 16 -> eval rho mu iota (EOp "imul16_hi" [r_ax; a]) * 2 ^ 16 + eval rho mu iota (EOp "imul16_lo" [r_ax; a]) =
                  (sgn 16 (rho "eax" mod 2 ^ 16) * sgn 16 (eval rho mu iota a)) mod 2 ^ 32).
Proof. intros rho mu iota a Oa. split; intros Sa; [apply imul32_value | apply imul16_value]; assumption. Qed.
Print Assumptions C04_imul_wide.
Theorem C04_imul_truncated : forall rho mu iota b c, operand_ok b = true -> operand_ok c = true -> size b = size c ->
  let n := size b in eval rho mu iota (EOp "*" [b; c]) = (eval rho mu iota b * eval rho mu iota c) mod 2 ^ n /\
                     eval rho mu iota (EOp "*" [b; c]) = (sgn n (eval rho mu iota b) * sgn n (eval rho mu iota c)) mod 2 ^ n.
Proof. exact imul_trunc_value. Qed.
Print Assumptions C04_imul_truncated.
Theorem C04_div : forall rho mu iota a, operand_ok a = true -> eval rho mu iota a <> 0 -> let ev := eval rho mu iota in
  (size a = 8 -> let D := ev r_ah * 2 ^ 8 + ev r_al in D / ev a < 2 ^ 8 -> ev (EOp "div8" [r_ah; r_al; a]) = D / ev a /\ ev (EOp "rem8" [r_ah; r_al; a]) = D mod ev a) /\
  (size a = 16 -> let D := ev r_dx * 2 ^ 16 + ev r_ax in D / ev a < 2 ^ 16 -> ev (EOp "div16" [r_dx; r_ax; a]) = D / ev a /\ ev (EOp "rem16" [r_dx; r_ax; a]) = D mod ev a) /\
  (size a = 32 -> let D := ev edx * 2 ^ 32 + ev eax in D / ev a < 2 ^ 32 -> ev (EOp "div32" [edx; eax; a]) = D / ev a /\ ev (EOp "rem32" [edx; eax; a]) = D mod ev a).
Proof. exact div_value. Qed.
Print Assumptions C04_div.
Theorem C04_idiv : forall rho mu iota a, operand_ok a = true -> eval rho mu iota a <> 0 -> let ev := eval rho mu iota in
  (size a = 8 -> let Ds := sgn 16 (ev r_ah * 2 ^ 8 + ev r_al) in let dv := sgn 8 (ev a) in - 2 ^ 7 <= Z.quot Ds dv < 2 ^ 7 ->
     sgn 8 (ev (EOp "idiv8" [r_ah; r_al; a])) = Z.quot Ds dv /\ sgn 8 (ev (EOp "irem8" [r_ah; r_al; a])) = Z.rem Ds dv) /\
  (size a = 16 -> let Ds := sgn 32 (ev r_dx * 2 ^ 16 + ev r_ax) in let dv := sgn 16 (ev a) in - 2 ^ 15 <= Z.quot Ds dv < 2 ^ 15 ->
     sgn 16 (ev (EOp "idiv16" [r_dx; r_ax; a])) = Z.quot Ds dv /\ sgn 16 (ev (EOp "irem16" [r_dx; r_ax; a])) = Z.rem Ds dv) /\
  (size a = 32 -> let Ds := sgn 64 (ev edx * 2 ^ 32 + ev eax) in let dv := sgn 32 (ev a) in - 2 ^ 31 <= Z.quot Ds dv < 2 ^ 31 ->
     sgn 32 (ev (EOp "idiv32" [edx; eax; a])) = Z.quot Ds dv /\ sgn 32 (ev (EOp "irem32" [edx; eax; a])) = Z.rem Ds dv).
Proof. exact idiv_value. Qed.
Print Assumptions C04_idiv.

(** setalc bsf bsr xlat pushfd pushfw popfd popfw enter *)
Theorem C04_sys_forms_are_the_mirror : forall sh c k l, In sh shards -> In c sh -> sys_of (lc_mnemo c) = Some k -> lc_lift c = Some l ->
  exists m, mirror_sys k (lc_o16 c) (lc_args c) = Some m /\ forall rho mu iota, map (eval rho mu iota) l = map (eval rho mu iota) m.
Proof. exact sys_forms_lifted. Qed.
Print Assumptions C04_sys_forms_are_the_mirror.
Theorem C04_bsf_bsr : forall rho mu iota b, operand_ok b = true -> size b <= 64 -> eval rho mu iota b <> 0 -> let v := eval rho mu iota b in
  (let k := eval rho mu iota (EOp "bsf" [b]) in 0 <= k < size b /\ Z.testbit v k = true /\ forall t, 0 <= t < k -> Z.testbit v t = false) /\
  (let k := eval rho mu iota (EOp "bsr" [b]) in 0 <= k < size b /\ Z.testbit v k = true /\ forall t, k < t -> Z.testbit v t = false).
Proof. intros rho mu iota b Ob Sb Nz v. split; [apply bsf_value | apply bsr_value]; assumption. Qed.
Print Assumptions C04_bsf_bsr.
Theorem C04_setalc_xlat : forall rho mu iota,
  eval rho mu iota (ECond (flag "cf") (int_from al 255) (int_from al 0)) = (if Z.odd (rho "cf") then 255 else 0) /\
  eval rho mu iota xlat_addr = (rho "ebx" + rho "eax" mod 2 ^ 8) mod 2 ^ 32.
Proof. intros rho mu iota. split; [apply setalc_value | apply xlat_address]. Qed.
Print Assumptions C04_setalc_xlat.
Theorem C04_eflags_image : forall rho mu iota w s j, In s (if w =? 32 then eflag_low ++ eflag_high else eflag_low) -> slot_lo s <= j < slot_hi s ->
  Z.testbit (eval rho mu iota (compose_eflag w)) j = Z.testbit (eval rho mu iota (slot_e s)) (j - slot_lo s).
Proof. exact eflags_image. Qed.
Print Assumptions C04_eflags_image.
Theorem C04_popf_assigns_every_flag : forall l cell f lo hi, In (f, lo, hi) l -> (forall sg w v, f <> EInt sg w v) -> In (EAff f (ESlice cell lo hi)) (popf_affs l cell).
Proof. exact popf_assigns. Qed.
Print Assumptions C04_popf_assigns_every_flag.
Theorem C04_enter : forall rho mu iota a, operand_ok a = true -> size a = 32 ->
  eval rho mu iota (EOp "-" [esp; EInt false 32 4]) = (rho "esp" - 4) mod 2 ^ 32 /\
  eval rho mu iota (EOp "-" [esp; EOp "+" [a; EInt false 32 4]]) = (rho "esp" - (eval rho mu iota a + 4)) mod 2 ^ 32.
Proof. exact enter32_value. Qed.
Print Assumptions C04_enter.

(** shifts and rotates: whole lists, and the carry flag of shl / shr / sar *)
Theorem C04_shift_lists_are_the_mirror : forall sh c k l, In sh shards -> In c sh -> shf_of (lc_mnemo c) = Some k -> lc_lift c = Some l ->
  is_shf_mirror k (lc_args c) l = true.
Proof. exact shf_forms_lifted. Qed.
Print Assumptions C04_shift_lists_are_the_mirror.
Theorem C04_tied_shift_list_means_mirror : forall k args l, is_shf_mirror k args l = true ->
  exists a b, args = [a; b] /\ operand_ok a = true /\ operand_ok b = true /\ (size a = 8 \/ size a = 16 \/ size a = 32) /\
    forall rho mu iota, map (eval rho mu iota) l = map (eval rho mu iota) (mirror_shf k a b).
Proof. exact is_shf_mirror_sound. Qed.
Print Assumptions C04_tied_shift_list_means_mirror.
Theorem C04_shift_carry : forall rho mu iota a b, operand_ok a = true -> operand_ok b = true -> (size a = 8 \/ size a = 16 \/ size a = 32) ->
  (size b = 8 \/ size b = 16 \/ size b = 32) ->
  let n := size a in let x := eval rho mu iota a in let k := eval rho mu iota b mod 32 in
  (forall new_cf, eval rho mu iota (keep_if_zero b new_cf) = if k =? 0 then rho "cf" mod 2 else eval rho mu iota new_cf) /\
  (0 < k <= n -> eval rho mu iota (shl_cf a b) = Z.b2z (Z.testbit x (n - k))) /\
  (0 < k -> eval rho mu iota (shr_cf ">>" a b) = Z.b2z (Z.testbit x (k - 1))) /\
  (0 < k -> eval rho mu iota (shr_cf "a>>" a b) = Z.b2z (Z.testbit (sgnv n x) (k - 1))).
Proof.
  intros rho mu iota a b Oa Ob Sa Sb n x k. split; [intros new_cf; exact (cf_kept_or_new rho mu iota a b Oa Ob Sb new_cf)|].
  split; [exact (shl_cf_value rho mu iota a b Oa Ob Sa Sb)|]. split; [exact (shr_cf_value rho mu iota a b Oa Ob Sa Sb) | exact (sar_cf_value rho mu iota a b Oa Ob Sa Sb)].
Qed.
Print Assumptions C04_shift_carry.

Theorem C04_rotate_carry : forall rho mu iota a b, operand_ok a = true -> operand_ok b = true -> (size a = 8 \/ size a = 16 \/ size a = 32) ->
  eval rho mu iota (EOp "&" [shift_val Rol a b; int_from a 1]) = Z.b2z (Z.testbit (eval rho mu iota (shift_val Rol a b)) 0) /\
  eval rho mu iota (msb (shift_val Ror a b)) = Z.b2z (Z.testbit (eval rho mu iota (shift_val Ror a b)) (size a - 1)).
Proof. intros rho mu iota a b Oa Ob Sa. split; [exact (rol_cf_value rho mu iota a b Oa Ob Sa) | exact (ror_cf_value rho mu iota a b Oa Ob Sa)]. Qed.
Print Assumptions C04_rotate_carry.

(** rcl / rcr: value and new carry are the (n+1)-bit ring operand:cf rotated by count & 31 *)
Theorem C04_rcl_rcr : forall rho mu iota a b, operand_ok a = true -> let n := size a in let ev := eval rho mu iota in
  let ring_ := the_ring rho mu iota a in let c := rc_count rho mu iota b in
  (Z.testbit ring_ 0 = Z.odd (rho "cf") /\ forall i, 0 <= i < n -> Z.testbit ring_ (i + 1) = Z.testbit (ev a) i) /\
  (let R := rol (n + 1) ring_ c in
     ev (EOp "<<<c_cf" [a; b; cf]) = Z.b2z (Z.testbit R 0) /\
     (forall i, 0 <= i < n -> Z.testbit (ev (EOp "<<<c_rez" [a; b; cf])) i = Z.testbit R (i + 1)) /\
     (forall j, 0 <= j < n + 1 -> Z.testbit R j = Z.testbit ring_ ((j - c) mod (n + 1)))) /\
  (let R := ror (n + 1) ring_ c in
     ev (EOp ">>>c_cf" [a; b; cf]) = Z.b2z (Z.testbit R 0) /\
     (forall i, 0 <= i < n -> Z.testbit (ev (EOp ">>>c_rez" [a; b; cf])) i = Z.testbit R (i + 1)) /\
     (forall j, 0 <= j < n + 1 -> Z.testbit R j = Z.testbit ring_ ((j + c) mod (n + 1)))).
Proof.
  intros rho mu iota a b Oa n ev ring_ c. split; [exact (ring_layout rho mu iota a)|]. split; [exact (rcl_bits rho mu iota a b Oa) | exact (rcr_bits rho mu iota a b Oa)].
Qed.
Print Assumptions C04_rcl_rcr.

(** the mirror lays the assignments out as the lifter does *)
Example C04_mirror_layout : forall a b, let c := alu_val Add a b in
  mirror Add a b = [upd_zf c; upd_nf c; upd_pf c; upd_af c; EAff (flag "cf") (add_cf_src a b c); EAff (flag "of") (add_of_src a b c); mk_aff a c].
Proof. reflexivity. Qed.
(** non-vacuity: more than 2000 regenerated binary forms and 150 unary forms are tied; and the auxiliary-carry formula is refuted *)
Example C04_nonvacuous_unary : (150 <= n_tied_u)%nat.
Proof. exact many_unary_forms_tied. Qed.
Example C04_nonvacuous : (2000 <= n_tied)%nat.
Proof. exact many_forms_tied. Qed.
Example C04_af_refuted : exists rho, let a := EId "eax" 32 true false in let b := EId "ebx" 32 true false in
  eval rho (fun _ => 0) (fun _ _ => 0) (ECond (e_and (alu_val Add a b) (int_from (alu_val Add a b) 16)) (i1 1) (i1 0)) = 1 /\
  (rho "eax" mod 16 + rho "ebx" mod 16) / 16 = 0.
Proof. exact af_formula_refuted. Qed.
(** non-vacuity of the condition-code theorems: hundreds of regenerated forms per family, all sixteen conditions in each *)
Example C04_cc_nonvacuous : (400 <= n_cc FSet)%nat /\ (1200 <= n_cc FCmov)%nat /\ (50 <= n_cc FJcc)%nat.
Proof. exact many_cc_forms. Qed.
Example C04_cc_all_sixteen : forallb (fun f => forallb (occurs f) ccs) [FSet; FCmov; FJcc] = true.
Proof. exact every_condition_occurs. Qed.
Example C04_mv_nonvacuous : (1100 <= n_mv true)%nat /\ (n_mv false <= 120)%nat.
Proof. exact many_mv_forms. Qed.
(** the mirror of `pop dword ptr [esp+4]`: the destination address uses esp + 4 *)
Example C04_pop_mirror : mirror_mv Pop [EMem (EOp "+" [esp; EInt false 32 4]) 32 None] =
  Some [EAff esp (EOp "+" [esp; EInt false 32 4]); EAff (EMem (EOp "+" [EOp "+" [esp; EInt false 32 4]; EInt false 32 4]) 32 None) (EMem esp 32 None)].
Proof. reflexivity. Qed.
Example C04_shift_nonvacuous : (500 <= n_sh)%nat.
Proof. exact many_shift_forms. Qed.
Example C04_ctl_nonvacuous : (40 <= n_ctl)%nat.
Proof. exact many_ctl_forms. Qed.
Example C04_str_nonvacuous : (12 <= n_str)%nat.
Proof. exact many_str_forms. Qed.
Example C04_flagmove_nonvacuous : (4 <= n_fm)%nat.
Proof. exact some_flagmove_forms. Qed.
Example C04_misc_nonvacuous : (700 <= n_misc true)%nat /\ (n_misc false <= 8)%nat.
Proof. exact many_misc_forms. Qed.
Example C04_misc_every_kind : forallb misc_occurs [Xadd; Cmps; Scas; Loop; Loope; Loopne; Jecxz; Cdq; Bt; Btc; Bts; Btr; Bswap; Cmpxchg] = true.
Proof. exact all_misc_kinds_occur. Qed.
(** the bit-test theorem applies to `bts eax, ebx`: a 32-bit register destination, 32 = 2^5 *)
Example C04_bit_test_hypotheses_met : let a := EId "eax" 32 true false in let b := EId "ebx" 32 true false in
  operand_ok a = true /\ operand_ok b = true /\ bit_cell a b = a /\ size a = 2 ^ 5 /\ size a <= 2 ^ size b /\
  mirror_misc Bts false 4099 [a; b] = Some [bit_cf a b; EAff a (EOp "|" [a; bit_mask a b])].
Proof. cbv zeta. repeat split; vm_compute; congruence. Qed.
Example C04_dshift_nonvacuous : (300 <= n_dsh)%nat.
Proof. exact many_dshift_forms. Qed.
Example C04_muldiv_nonvacuous : (350 <= n_muldiv)%nat.
Proof. exact many_muldiv_forms. Qed.
(** `div ecx` with edx:eax = 7 and ecx = 2 meets the hypotheses of the division theorem: quotient 3, remainder 1 *)
Example C04_div_hypotheses_met : let rho := fun r => if (r =? "eax")%string then 7 else if (r =? "ecx")%string then 2 else 0 in
  let a := EId "ecx" 32 true false in let ev := eval rho (fun _ => 0) (fun _ _ => 0) in
  operand_ok a = true /\ ev a <> 0 /\ (ev edx * 2 ^ 32 + ev eax) / ev a < 2 ^ 32 /\ ev (EOp "div32" [edx; eax; a]) = 3 /\ ev (EOp "rem32" [edx; eax; a]) = 1.
Proof. cbv zeta. repeat split; vm_compute; congruence. Qed.
Example C04_sys_nonvacuous : (170 <= n_sys)%nat.
Proof. exact many_sys_forms. Qed.
(** the zero flag sits at bit 6 of the pushed image, the direction flag at bit 10 *)
Example C04_eflags_zf_df : forall rho mu iota, Z.testbit (eval rho mu iota (compose_eflag 32)) 6 = Z.testbit (eval rho mu iota (flag "zf")) 0 /\
                                             Z.testbit (eval rho mu iota (compose_eflag 32)) 10 = Z.testbit (eval rho mu iota (flag "df")) 0.
Proof.
  intros rho mu iota. split.
  - apply (eflags_image rho mu iota 32 (flag "zf", 6, 7) 6); [vm_compute; tauto | vm_compute; split; congruence].
  - apply (eflags_image rho mu iota 32 (flag "df", 10, 11) 10); [vm_compute; tauto | vm_compute; split; congruence].
Qed.
Example C04_shift_lists_nonvacuous : (750 <= n_shf)%nat.
Proof. exact many_shf_forms. Qed.
