(** C02 — x86 assembler candidates encode exactly the requested instruction.  Property theorems only.
    Proved here: the two places where a candidate's numbers and address bytes are produced.
    (1) check_imm_size (model Asm.v, tied to ia32_arch.check_imm_size by exact-output correspondence) offers a form only for a
        value the form represents, never changes the value modulo the field width, never changes it modulo 2^32 for the
        sign-extended and full-width forms, and excludes the form when the value is out of range;
    (2) every (ModRM, SIB) pair the assembler's reverse table fd_afs (regenerated from the working tree on every run) offers for
        an address form has an empty reg field and decodes, through the decode tables of the disassembler (regenerated too;
        proved to agree with the SDM forms in C01), to exactly that address form.
    NOT proved: the text parsers and the row selection of asm_candidates; for them every candidate of every generated line is
    validated against GNU objdump / GNU as (harness/p_c02.py). *)
From Coq Require Import ZArith List Bool String.
From Mx Require Import X86Types Asm AsmProofs AsmFacts.
From MxGen Require Import X86Tables AsmTables.
Import ListNotations.
Open Scope Z_scope.

Theorem C02_imm_form_represents_value : forall v is16 k r,
  check_imm_size v is16 k = Some r -> in_range k r /\ r mod 2 ^ bits k = v mod 2 ^ bits k.
Proof. exact check_imm_fits. Qed.
Print Assumptions C02_imm_form_represents_value.

Theorem C02_imm_no_sign_change : forall v k r, k <> U08 -> check_imm_size v false k = Some r -> r mod 2 ^ 32 = v mod 2 ^ 32.
Proof. exact check_imm_no_sign_change. Qed.
Print Assumptions C02_imm_no_sign_change.

Theorem C02_imm_unsigned_byte : forall v is16 r, check_imm_size v is16 U08 = Some r -> -128 <= v < 256 /\ (0 <= v -> r = v) /\ (v < 0 -> r = v + 256).
Proof. exact check_imm_u08. Qed.
Print Assumptions C02_imm_unsigned_byte.

Theorem C02_imm_unfit_value_excludes_form : forall v,
  (v < -128 \/ 256 <= v -> check_imm_size v false U08 = None) /\ (v < 0 \/ 65536 <= v -> check_imm_size v false U16 = None) /\
  (v < - 2 ^ 32 \/ 2 ^ 32 <= v -> check_imm_size v false U32 = None) /\ (128 <= v < 2 ^ 32 - 128 -> check_imm_size v false S08 = None).
Proof. exact check_imm_excludes. Qed.
Print Assumptions C02_imm_unfit_value_excludes_form.

Theorem C02_modrm_synthesis_sound : forall key has_txt l m s, In (key, has_txt, l) fd_afs -> In (m, s) l ->
  0 <= m < 256 /\ Z.land m 56 = 0 /\
  exists a, decode_ms x86_tables (key_table x86_tables key) m s = Some a /\ afs_key_eqb a key = true /\ (has_txt = true -> af_txt a = af_txt key).
Proof. exact fd_afs_entry_sound. Qed.
Print Assumptions C02_modrm_synthesis_sound.

(** non-vacuity: -1 is offered as a sign-extended byte, 255 is not; eax+ecx*4+disp8 has a ModRM/SIB pair *)
Example C02_nonvacuous : check_imm_size (-1) false S08 = Some (-1) /\ check_imm_size 255 false S08 = None /\ check_imm_size 255 false U08 = Some 255 /\
  existsb (fun row : fd_row => let '(key, _, l) := row in afs_key_eqb key (mkafs true (Some 1) [(0, 1); (1, 4)] "") && negb (match l with [] => true | _ => false end)) fd_afs = true.
Proof. vm_compute. repeat split; reflexivity. Qed.
