(** C05 — placeholder until SimpProofs lands in this round. *)
From Coq Require Import ZArith List Bool String.
From Mx Require Import Expr Simp.
Import ListNotations.
Open Scope Z_scope.
Example C05_shift_fold_example : simp 10 (EOp ">>" [EInt false 32 16; EInt false 32 1]) = Ok (EInt false 32 8).
Proof. vm_compute. reflexivity. Qed.
Theorem C05_shift_fold : simp 10 (EOp "<<" [EInt false 32 1; EInt false 32 4]) = Ok (EInt false 32 16).
Proof. vm_compute. reflexivity. Qed.
Print Assumptions C05_shift_fold.
