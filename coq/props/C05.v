(** C05 — simplification preserves meaning and terminates.  Property theorems only.
    Proved, for EVERY tree of the well-formedness predicate SimpProofs.wf (parameters: a switch ac that turns concatenations on or
    off, and an arbitrary predicate Q every identifier of the tree satisfies — the simplifier invents no identifier), every fuel and
    every result the model Simp.simp returns: the result is again well formed, has the same width, and has the same value under
    every valuation of identifiers, every memory and every interpretation of uninterpreted operators.
    Well-formed trees (all widths at most 64): constants, identifiers, memory cells with any well-formed address, conditionals;
    the n-ary operators + * ^ & | on operands of one width, unary and binary minus; slices; the shifts << >> a>> on a value and a
    count of any two widths; == on two operands of one width; parity; the rotations <<< >>> on a value of width 8, 16, 32 or 64
    and an 8-bit count; and (ac = true) concatenations — non-empty slots inside [0, 64] with distinct starts, one of them 0, no two
    overlapping, a constant piece at least as wide as its slot, any other piece exactly as wide.
    This covers EVERY rewriting rule of _expr_simp and merge_sliceto_slice: flattening, canonical sorting, constant folding through
    the fixed-width integer classes, A op 0, the singleton rule, duplicate / cancelling-pair removal, all minus rules, the shift
    rules (constant folds, count 0, (X & m) >> c = 0 when m < 2^c), the == rules (constant fold, (X | m) == 0 = 0 when m <> 0), the
    parity fold, the rotation rules (count 0, count = width, two rotations in a row merged by adding or subtracting their counts
    modulo 2^8), the concatenation rules (classification, masking and merging of adjacent constants, merging of adjacent slices of
    one source, sorting by start; the single-slot rule), the conditional rules, the slice rules (whole-width slice, slice of a
    constant, of a slice, of a concatenation, low bytes of a memory cell), the bottom-up traversal and the fixpoint loop.
    Termination: Simp.simp is total by construction (explicit fuel); OutOfFuel is a distinct result that the correspondence never
    observes on the generated trees (fuel 64).
    NOT covered: trees outside the predicate (operands of different widths, rotations with other count widths, widths above 64,
    overlapping slots ...) — for those the property is decided by the exact-tree correspondence with expression_helper.py, the
    audit of every rewritten case and the exhaustive valuation search (harness/p_c05.py). *)
From Coq Require Import ZArith List Bool String.
From Mx Require Import Expr Simp SimpProofs.
Import ListNotations.
Open Scope Z_scope.

Theorem C05_simp_sound_fragment1 : forall (ac : bool) (Q : string -> Z -> bool -> bool -> bool) fuel e e', wf ac Q e = true -> simp fuel e = Ok e' ->
  wf ac Q e' = true /\ size e' = size e /\ forall rho mu iota, eval rho mu iota e' = eval rho mu iota e.
Proof. exact simp_sound_frag1. Qed.
Print Assumptions C05_simp_sound_fragment1.

(** the single rewriting step, on its own *)
Theorem C05_one_step_sound : forall (ac : bool) (Q : string -> Z -> bool -> bool -> bool) rho mu iota e e', wf ac Q e = true -> simp1 e = Ok e' ->
  wf ac Q e' = true /\ size e' = size e /\ eval rho mu iota e' = eval rho mu iota e.
Proof. exact simp1_good. Qed.
Print Assumptions C05_one_step_sound.

(** non-vacuity: a well-formed tree on which flattening, sorting, folding, zero-drop, cancellation and the minus rules all fire *)
Example C05_nonvacuous :
  let a := EId "a" 32 false true in let b := EId "b" 32 false true in
  let e := EOp "+" [EOp "+" [a; EInt false 32 3]; EOp "-" [EOp "-" [b]]; EInt false 32 4294967293; EOp "^" [b; b]; EOp "-" [a]] in
  wf true (fun _ _ _ _ => true) e = true /\ simp 20 e = Ok b.
Proof. vm_compute. split; reflexivity. Qed.
(** the shift constant folds repaired in /repo (fix: bca1ceb) stay instances, outside fragment 1 *)
Example C05_shift_fold : simp 10 (EOp ">>" [EInt false 32 16; EInt false 32 1]) = Ok (EInt false 32 8) /\
                         simp 10 (EOp "<<" [EInt false 32 1; EInt false 32 4]) = Ok (EInt false 32 16).
Proof. vm_compute. split; reflexivity. Qed.
(** == and parity inside the fragment: (eax | 4) == 0 is 0 for every eax; the parity of a constant folds *)
Example C05_eq_parity_nonvacuous :
  let a := EId "eax" 32 true true in
  let e := EOp "+" [EOp "==" [EOp "|" [a; EInt false 32 4]; EInt false 32 0]; EOp "parity" [EInt false 32 3]; a] in
  wf true (fun _ _ _ _ => true) e = true /\ simp 20 e = Ok (EOp "+" [a; EInt false 32 1]).
Proof. vm_compute. split; reflexivity. Qed.
(** concatenations inside the fragment: adjacent slices of eax merge back to eax; the zero extension of bl keeps its shape with the
    constant moved up; a slice of a concatenation picks the slot; adjacent constants merge into one *)
Example C05_compose_nonvacuous :
  let Q := fun (_ : string) (_ : Z) (_ _ : bool) => true in
  let a := EId "eax" 32 true true in let b := EId "bl" 8 false true in
  let e1 := ECompose [(ESlice a 0 8, 0, 8); (ESlice a 8 32, 8, 32)] in
  let e2 := ECompose [(EInt false 32 0, 8, 32); (b, 0, 8)] in
  let e3 := ESlice (ECompose [(b, 0, 8); (EInt false 32 5, 8, 32)]) 8 16 in
  let e4 := EOp "+" [ECompose [(EInt false 32 3, 0, 8); (EInt false 32 1, 8, 16); (ESlice a 16 32, 16, 32)]; EInt false 32 1] in
  (wf true Q e1 = true /\ simp 20 e1 = Ok a) /\
  (wf true Q e2 = true /\ simp 20 e2 = Ok (ECompose [(b, 0, 8); (EInt false 32 0, 8, 32)])) /\
  (wf true Q e3 = true /\ simp 20 e3 = Ok (EInt false 8 5)) /\
  (wf true Q e4 = true /\ simp 20 e4 = Ok (EOp "+" [ECompose [(EInt false 32 259, 0, 16); (ESlice a 16 32, 16, 32)]; EInt false 32 1])).
Proof. vm_compute. repeat split; reflexivity. Qed.
(** rotations inside the fragment: counts add up (3 + 5), a rotation by the width disappears, opposite rotations cancel *)
Example C05_rot_nonvacuous :
  let Q := fun (_ : string) (_ : Z) (_ _ : bool) => true in
  let a := EId "eax" 32 true true in let cl := EId "cl" 8 false true in
  let e1 := EOp "<<<" [EOp "<<<" [a; EInt false 8 3]; EInt false 8 5] in
  let e2 := EOp ">>>" [EOp "<<<" [a; cl]; EInt false 8 32] in
  let e3 := EOp ">>>" [EOp "<<<" [a; EInt false 8 7]; EInt false 8 7] in
  (wf false Q e1 = true /\ simp 20 e1 = Ok (EOp "<<<" [a; EInt false 8 8])) /\
  (wf false Q e2 = true /\ simp 20 e2 = Ok (EOp "<<<" [a; cl])) /\
  (wf false Q e3 = true /\ simp 20 e3 = Ok a).
Proof. vm_compute. repeat split; reflexivity. Qed.
