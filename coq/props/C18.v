(** C18 — PowerPC words decode unambiguously and re-encode to themselves (word-level part). *)
From Coq Require Import ZArith List Bool String.
From Mx Require Import Ppc PpcProofs PpcFacts.
From MxGen Require Import PpcTables.
Import ListNotations.
Open Scope Z_scope.

(** for EVERY 32-bit word (indeed every integer) at most one instruction class of the table miasmx builds
    (regenerated from /repo on every run) claims it — proved without enumerating words: a sound syntactic
    disjointness test on the class constraints holds for all 82*81/2 pairs *)
Theorem C18_at_most_one_class : forall w, (List.length (claimants ppc_classes w) <= 1)%nat.
Proof. exact (claimants_at_most_one ppc_classes classes_wf classes_disjoint). Qed.
Print Assumptions C18_at_most_one_class.

(** the disjointness test is sound for arbitrary classes (not only the dumped ones) *)
Theorem C18_disjointb_sound : forall c1 c2 w, class_wf c1 = true -> class_wf c2 = true -> disjointb c1 c2 = true ->
  check c1 w = true -> check c2 w = true -> False.
Proof. exact disjointb_sound. Qed.
Print Assumptions C18_disjointb_sound.

(** the fields of every class tile the 32 bits of the word *)
Theorem C18_fields_tile : forallb (fun c => total_mask c =? Z.ones 32) ppc_classes = true.
Proof. exact fields_tile. Qed.
Print Assumptions C18_fields_tile.

(** decoding the fields of a word and re-encoding them gives the word back, for every class with plain field
    codecs and every 32-bit word (the class test is not even needed) *)
Theorem C18_reencode_identity : forall c w, plain_fields c = true -> total_mask c = Z.ones 32 -> 0 <= w < 2 ^ 32 -> reencode c w = w.
Proof. exact reencode_identity. Qed.
Print Assumptions C18_reencode_identity.

Theorem C18_reencode_all_plain : forall c, In c ppc_classes -> plain_fields c = true -> forall w, 0 <= w < 2 ^ 32 -> reencode c w = w.
Proof.
  intros c I P w W. apply reencode_identity; auto.
  pose proof fields_tile as T. rewrite forallb_forall in T. apply Z.eqb_eq. apply T. assumption.
Qed.
Print Assumptions C18_reencode_all_plain.

(** non-vacuity: addi r3, r1, 8 *)
Example C18_nonvacuous : map pc_name (claimants ppc_classes 945881096) = ["ppc_addi"%string]
  /\ (exists c, In c ppc_classes /\ pc_name c = "ppc_addi"%string /\ plain_fields c = true).
Proof. split; [vm_compute; reflexivity|]. eexists. split; [left; reflexivity|]. split; vm_compute; reflexivity. Qed.
