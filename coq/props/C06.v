(** C06 — placeholder until EvalAbsProofs lands in this round. *)
From Coq Require Import ZArith List Bool String.
From Mx Require Import Expr Simp EvalAbs.
Import ListNotations.
Open Scope Z_scope.
Theorem C06_nary_xor_example :
  eval_expr 20 (Pool [(EId "a" 8 false false, EInt false 8 1); (EId "b" 8 false false, EInt false 8 2); (EId "c" 8 false false, EInt false 8 4)] [])
            (EOp "^" [EId "a" 8 false false; EId "b" 8 false false; EId "c" 8 false false]) = inl (Ok (EInt false 8 7)).
Proof. vm_compute. reflexivity. Qed.
Print Assumptions C06_nary_xor_example.
