(** C06 — symbolic evaluation is sound substitution.  Property theorems only.
    Proved (model EvalAbs.eval_expr, tied to eval_abs.eval_expr by exact-output correspondence): for register-only states (no
    symbolic memory cell has been written), whose bindings map non-terminal identifiers to well-formed expressions of their width,
    and for every expression of the C05 well-formedness predicate with ac = false (everything C05 covers — operators, slices, shifts, rotations, ==, parity — except concatenations) whose identifiers conform to a name signature (width, is_reg, is_term):
    every result eval_expr returns is well formed, has the width of the argument, and — in EVERY concrete state rho, memory and
    operator interpretation — evaluates to the value of the argument in the state where each bound identifier takes the value of
    its binding in rho.  Terminal identifiers are never substituted; memory cells are read at the substituted address.
    The proof goes through the simplifier (C05 theorem), constant evaluation of operators, conditionals with constant and
    symbolic conditions, and the empty-memory path of the overlapping-read search.
    NOT proved: states with written memory cells (overlap logic: decided by the history correspondence of C07),
    concatenations (eval_ExprCompose re-evaluates an already evaluated condition; see DESIGN.md section 9) and the operators outside the
    model (XNotModelled).  Fuel (the model's stand-in for Python's recursion depth) is not an input: once eval_expr returns a result,
    every larger fuel returns the same result (FuelProofs.v), so the theorem speaks about THE result of the evaluation. *)
From Coq Require Import ZArith List Bool String.
From Mx Require Import Expr Simp SimpProofs EvalAbs EvalAbsProofs FuelProofs.
Import ListNotations.
Open Scope Z_scope.

Theorem C06_eval_expr_is_substitution : forall (Sig : string -> Z * bool * bool) (s : pool),
  pool_mem s = [] -> Forall (binding_ok Sig) (pool_id s) ->
  forall fuel e e', wf false (IdQ Sig) e = true -> eval_expr fuel s e = inl (Ok e') ->
  wf false (IdQ Sig) e' = true /\ size e' = size e /\
  forall rho mu iota, eval rho mu iota e' = eval (rho' s rho mu iota) mu iota e.
Proof. exact eval_expr_is_substitution. Qed.
Print Assumptions C06_eval_expr_is_substitution.

(** non-vacuity: eax := init_eax + 1, ebx := 2;  (eax ^ ebx) + @32[eax] - eax  evaluates, all hypotheses hold *)
Definition sig0 (n : string) : Z * bool * bool :=
  if (n =? "init_eax")%string then (32, true, true) else (32, true, false).
Definition st0 : pool :=
  Pool [(EId "eax" 32 true false, EOp "+" [EId "init_eax" 32 true true; EInt false 32 1]); (EId "ebx" 32 true false, EInt false 32 2)] [].
Definition e0 : expr :=
  let eax := EId "eax" 32 true false in let ebx := EId "ebx" 32 true false in
  EOp "+" [EOp "^" [eax; ebx]; EMem eax 32 None; EOp "-" [eax]].
Example C06_nonvacuous :
  wf false (IdQ sig0) e0 = true /\ forallb (fun kv => wf false (IdQ sig0) (snd kv) && (size (snd kv) =? 32)) (pool_id st0) = true /\
  (match eval_expr 30 st0 e0 with inl (Ok _) => true | _ => false end) = true.
Proof. vm_compute. repeat split; reflexivity. Qed.
(** shifts with constant operands go through deal_op's constant evaluation (saturating counts): ebx := 2, so  (ebx << 3) a>> ebx  is a constant *)
Example C06_shift_consts :
  let ebx := EId "ebx" 32 true false in
  let e := EOp "a>>" [EOp "<<" [ebx; EInt false 32 3]; ebx] in
  wf false (IdQ sig0) e = true /\ eval_expr 30 st0 e = inl (Ok (EInt false 32 4)).
Proof. vm_compute. split; reflexivity. Qed.

(** the result does not depend on the fuel *)
Theorem C06_result_independent_of_fuel : forall f f' s e r r', eval_expr f s e = okx r -> eval_expr f' s e = okx r' -> r = r'.
Proof. exact eval_expr_runs_agree. Qed.
Print Assumptions C06_result_independent_of_fuel.
