(** C15 — IR nodes obey structural laws.  Property theorems only, each closed by [exact] of a lemma of
    Mx.ExprProofs about the model Mx.Expr (tied to expression.py by the exprlaws correspondence). *)
From Coq Require Import ZArith List Bool String.
From Mx Require Import Expr ExprProofs Simp SimpProofs CanonProofs.
Import ListNotations.
Open Scope Z_scope.

(** equality (the per-class __eq__ methods) is an equivalence on ALL trees *)
Theorem C15_eq_refl : forall e, expr_eqb e e = true.
Proof. exact eqb_refl. Qed.
Print Assumptions C15_eq_refl.
Theorem C15_eq_sym : forall x y, expr_eqb x y = expr_eqb y x.
Proof. exact eqb_sym. Qed.
Print Assumptions C15_eq_sym.
Theorem C15_eq_trans : forall x y z, expr_eqb x y = true -> expr_eqb y z = true -> expr_eqb x z = true.
Proof. exact eqb_trans. Qed.
Print Assumptions C15_eq_trans.

(** ... that implies equal hashes, for every host hash of strings / ints / None (i.e. every PYTHONHASHSEED) *)
Theorem C15_eq_hash : forall (hs : string -> Z) (hi : Z -> Z) (hnone : Z) x y,
  expr_eqb x y = true -> hash hs hi hnone x = hash hs hi hnone y.
Proof. exact hash_eqb. Qed.
Print Assumptions C15_eq_hash.

(** ... and equal widths and values under every valuation, memory and interpretation of the named operators *)
Theorem C15_eq_size : forall x y, expr_eqb x y = true -> size x = size y.
Proof. exact size_eqb. Qed.
Print Assumptions C15_eq_size.
Theorem C15_eq_value : forall rho mu iota x y, expr_eqb x y = true -> eval rho mu iota x = eval rho mu iota y.
Proof. exact eval_eqb. Qed.
Print Assumptions C15_eq_value.

(** a deep copy, and a visit with the identity callback, give back the same tree *)
Theorem C15_copy_id : forall e, copy e = e.
Proof. exact copy_id. Qed.
Print Assumptions C15_copy_id.
Theorem C15_visit_id : forall e, visit (fun x => x) e = e.
Proof. exact visit_id. Qed.
Print Assumptions C15_visit_id.

(** visit(cb) preserves width and value whenever the callback does *)
Theorem C15_visit_preserves : forall rho mu iota cb,
  (forall x, size (cb x) = size x /\ eval rho mu iota (cb x) = eval rho mu iota x) ->
  forall e, size (visit cb e) = size e /\ eval rho mu iota (visit cb e) = eval rho mu iota e.
Proof. exact visit_preserves. Qed.
Print Assumptions C15_visit_preserves.

(** replace_expr denotes substitution: when every key and its image have the same width and value, the
    result has the original's width and value (sub-term keys of any shape, any number of keys) *)
Theorem C15_replace_congruence : forall rho mu iota d,
  (forall k v, In (k, v) d -> size k = size v /\ eval rho mu iota k = eval rho mu iota v) ->
  forall e, size (replace_expr d e) = size e /\ eval rho mu iota (replace_expr d e) = eval rho mu iota e.
Proof. exact replace_congruence. Qed.
Print Assumptions C15_replace_congruence.

(** canonize(): on well-formed trees (the C05 predicate: operands of the commutative-associative operators have one width; the slots
    of a concatenation do not overlap) sorting the operands / slots preserves well-formedness, width and the value under every valuation, memory and operator interpretation.
    (Without the one-width condition it does not: the width of an operator node is that of its FIRST operand.) *)
Theorem C15_canonize_preserves_value : forall (ac : bool) (Q : string -> Z -> bool -> bool -> bool) e, wf ac Q e = true ->
  wf ac Q (canonize e) = true /\ size (canonize e) = size e /\ forall rho mu iota, eval rho mu iota (canonize e) = eval rho mu iota e.
Proof. exact canonize_preserves. Qed.
Print Assumptions C15_canonize_preserves_value.
Example C15_canonize_width_refuted : exists e rho, eval rho (fun _ => 0) (fun _ _ => 0) (canonize e) <> eval rho (fun _ => 0) (fun _ _ => 0) e.
Proof.
  exists (EOp "+" [EId "b" 32 false false; EId "a" 8 false false]), (fun n => if (n =? "a")%string then 1 else 255).
  vm_compute. discriminate.
Qed.
