(** C15 — IR nodes obey structural laws (placeholder until ExprProofs lands in this round). *)
From Coq Require Import ZArith List Bool.
From Mx Require Import Expr.
Theorem C15_eqb_int_width : forall sg w v sg' w' v', expr_eqb (EInt sg w v) (EInt sg' w' v') = true -> v = v' /\ w = w'.
Proof. intros. simpl in H. apply andb_true_iff in H. destruct H. split; apply Z.eqb_eq; assumption. Qed.
Print Assumptions C15_eqb_int_width.
