(** C13 — simplifier output is canonical: idempotent, order-insensitive, seed-independent.  Property theorems only.
    Proved on the model (Simp.v, tied to expression_helper.py by exact-tree correspondence):
      (fixpoint)   for ALL trees, every result of the simplifier is a fixpoint of its own rewriting step at the root: applying
                   _expr_simp once more returns an == expression;
      (idempotent) on well-formed trees (SimpProofs.wf — everything C05 covers, concatenations and rotations included; the identifier predicate determines is_term, as every name signature does)
                   the result is a DEEP normal form — every node of it is returned unchanged by the rewriting step — and
                   simplifying it again returns the IDENTICAL tree, whatever the fuel;
      (order)      the canonical ordering of operands is a permutation of its input whatever the input order (so no operand is
                   lost or duplicated by sorting), and on well-formed trees operand order does not influence the VALUE of the result;
      (fuel)       two successful runs of the model return the same tree whatever their fuel.
    NOT proved: idempotence outside the well-formedness predicate (ill-typed trees),
    that permuted or re-associated operand lists give the IDENTICAL tree (needs injectivity of key_expr on the operands, which
    fails across widths), and independence from PYTHONHASHSEED (a property of the implementation's dict/set iteration):
    these are decided by runs of the implementation (harness/p_c13.py: second pass, all permutations / re-associations of up to
    5 operands, several hash seeds) against the model. *)
From Coq Require Import ZArith List Bool String Permutation.
From Mx Require Import Expr Simp SimpProofs SimpFix SimpIdem MachineProofs.
Import ListNotations.
Open Scope Z_scope.

Theorem C13_result_is_fixpoint_of_the_step : forall fuel e r, simp fuel e = Ok r -> exists r1, simp1 r = Ok r1 /\ expr_eqb r1 r = true.
Proof. exact simp_result_is_step_fixpoint. Qed.
Print Assumptions C13_result_is_fixpoint_of_the_step.

(** idempotence on well-formed trees: the result is a deep normal form, and a second pass returns the identical tree *)
Theorem C13_idempotent_on_well_formed_trees : forall (ac : bool) (Q : string -> Z -> bool -> bool -> bool),
  (forall n w r t t', Q n w r t = true -> Q n w r t' = true -> t = t') ->
  forall fuel e r, wf ac Q e = true -> simp fuel e = Ok r -> forall f, simp (S f) r = Ok r.
Proof. exact simp_idempotent. Qed.
Print Assumptions C13_idempotent_on_well_formed_trees.

Theorem C13_result_is_a_deep_normal_form : forall (ac : bool) (Q : string -> Z -> bool -> bool -> bool),
  (forall n w r t t', Q n w r t = true -> Q n w r t' = true -> t = t') ->
  forall fuel e r, wf ac Q e = true -> simp fuel e = Ok r -> DF r.
Proof. exact simp_result_is_normal_form. Qed.
Print Assumptions C13_result_is_a_deep_normal_form.

(** what a deep normal form is: the node itself and, recursively, every operand is a fixpoint of the rewriting step *)
Theorem C13_deep_normal_form_unfolds : forall e, DF e <-> simp1 e = Ok e /\ kids e.
Proof. exact DF_unfold. Qed.
Print Assumptions C13_deep_normal_form_unfolds.

Theorem C13_canonical_order_is_a_permutation : forall l, Permutation (canonize_expr_list l) l.
Proof. exact (sort_by_perm key_expr). Qed.
Print Assumptions C13_canonical_order_is_a_permutation.

Theorem C13_operand_order_does_not_change_the_value : forall (ac : bool) (Q : string -> Z -> bool -> bool -> bool) op k args args' fuel r r',
  aop_of op = Some k -> Permutation args args' -> wf ac Q (EOp op args) = true -> wf ac Q (EOp op args') = true ->
  simp fuel (EOp op args) = Ok r -> simp fuel (EOp op args') = Ok r' ->
  size r = size r' /\ forall rho mu iota, eval rho mu iota r = eval rho mu iota r'.
Proof. exact operand_order_value. Qed.
Print Assumptions C13_operand_order_does_not_change_the_value.

Theorem C13_successful_runs_agree : forall f f' e r r', simp f e = Ok r -> simp f' e = Ok r' -> r = r'.
Proof. exact simp_deterministic_in_fuel. Qed.
Print Assumptions C13_successful_runs_agree.

Example C13_nonvacuous : simp 10 (EOp "+" [EId "b" 8 false false; EId "a" 8 false false]) = Ok (EOp "+" [EId "a" 8 false false; EId "b" 8 false false]) /\
                         simp 10 (EOp "+" [EId "a" 8 false false; EId "b" 8 false false]) = Ok (EOp "+" [EId "a" 8 false false; EId "b" 8 false false]).
Proof. vm_compute. split; reflexivity. Qed.
(** non-vacuity of the idempotence theorem: a well-formed tree on which flattening, folding, cancellation and a shift rule fire,
    under a predicate that determines is_term *)
Example C13_idempotent_nonvacuous :
  let Q := fun (n : string) (w : Z) (r t : bool) => Bool.eqb t false in
  let a := EId "a" 32 true false in let b := EId "b" 32 true false in
  let e := EOp "+" [EOp "+" [b; EInt false 32 3]; EOp ">>" [EOp "&" [a; EInt false 32 255]; EInt false 32 8]; EOp "-" [b]; a] in
  (forall n w r t t', Q n w r t = true -> Q n w r t' = true -> t = t') /\ wf false Q e = true /\ simp 20 e = Ok (EOp "+" [a; EInt false 32 3]).
Proof. split; [intros n w r t t' H1 H2; apply eqb_prop in H1; apply eqb_prop in H2; congruence|]. vm_compute. split; reflexivity. Qed.
(** ... and with concatenations (ac = true): adjacent constants merge, the result is returned unchanged by a second pass *)
Example C13_idempotent_compose_nonvacuous :
  let Q := fun (n : string) (w : Z) (r t : bool) => Bool.eqb t false in
  let a := EId "eax" 32 true false in
  let e := EOp "+" [ECompose [(EInt false 32 3, 0, 8); (EInt false 32 1, 8, 16); (ESlice a 16 32, 16, 32)]; EInt false 32 1] in
  let r := EOp "+" [ECompose [(EInt false 32 259, 0, 16); (ESlice a 16 32, 16, 32)]; EInt false 32 1] in
  wf true Q e = true /\ simp 20 e = Ok r /\ simp 5 r = Ok r.
Proof. vm_compute. repeat split; reflexivity. Qed.
