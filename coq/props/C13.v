(** C13 — placeholder until SimpProofs lands in this round. *)
From Coq Require Import ZArith List Bool String.
From Mx Require Import Expr Simp.
Import ListNotations.
Open Scope Z_scope.
Theorem C13_example_idem : simp 10 (EOp "+" [EId "a" 8 false false; EId "b" 8 false false])
  = Ok (EOp "+" [EId "a" 8 false false; EId "b" 8 false false]).
Proof. vm_compute. reflexivity. Qed.
Print Assumptions C13_example_idem.
